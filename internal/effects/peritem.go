package effects

import (
	"fmt"
	"go/types"
	"strings"

	"golang.org/x/tools/go/ssa"

	"verif/internal/load"
	"verif/internal/report"
)

// VisitorPerItem: in the command's worker loops every stateful library object that works on one file
// (a printer, dumper, formatter, traverser, name resolver: a pointer to a struct type declared under
// pkg/visitor) is created in the iteration that uses it. A visitor created before the loop carries its
// state (the printer's HTML/PHP mode and last chunk, the resolver's namespace and alias tables, the
// dumper's indentation) from one file into the next.
func VisitorPerItem(w *World, rel string) *report.RuleResult {
	res := report.NewResult("visitor-per-item")
	isVisitorState := func(t types.Type) bool {
		n := namedOf(t)
		if n == nil || n.Obj().Pkg() == nil {
			return false
		}
		if _, ok := n.Underlying().(*types.Struct); !ok {
			return false
		}
		r := load.Rel(n.Obj().Pkg())
		return strings.HasPrefix(r, "pkg/visitor")
	}
	type loop struct{ body map[*ssa.BasicBlock]bool }
	loopsOf := map[*ssa.Function][]loop{}
	for _, fn := range w.InPkgs(rel) {
		var loops []loop
		for _, b := range fn.Blocks {
			for _, s := range b.Succs {
				if s.Dominates(b) {
					l := loop{body: map[*ssa.BasicBlock]bool{s: true}}
					stack := []*ssa.BasicBlock{b}
					for len(stack) > 0 {
						x := stack[len(stack)-1]
						stack = stack[:len(stack)-1]
						if l.body[x] {
							continue
						}
						l.body[x] = true
						stack = append(stack, x.Preds...)
					}
					loops = append(loops, l)
				}
			}
		}
		loopsOf[fn] = loops
	}
	outermost := func(fn *ssa.Function, b *ssa.BasicBlock) *loop {
		var best *loop
		ls := loopsOf[fn]
		for i := range ls {
			if ls[i].body[b] && (best == nil || len(ls[i].body) > len(best.body)) {
				best = &ls[i] // the outermost loop: the per-file loop of a worker
			}
		}
		return best
	}
	// functions of the package that run once per item: called (statically) from inside a loop of the package, or
	// from such a function - the body of a worker's loop moved into a helper
	inPkg := map[*ssa.Function]bool{}
	for _, fn := range w.InPkgs(rel) {
		inPkg[fn] = true
	}
	type site struct {
		caller *ssa.Function
		call   ssa.CallInstruction
	}
	perItem := map[*ssa.Function][]site{}
	for changed := true; changed; {
		changed = false
		for _, fn := range w.InPkgs(rel) {
			for _, b := range fn.Blocks {
				if outermost(fn, b) == nil && perItem[fn] == nil {
					continue
				}
				for _, in := range b.Instrs {
					c, ok := in.(ssa.CallInstruction)
					if !ok {
						continue
					}
					if _, isGo := in.(*ssa.Go); isGo {
						continue // a goroutine started per item is not the item's own work
					}
					callee := c.Common().StaticCallee()
					if callee == nil || !inPkg[callee] || callee == fn {
						continue
					}
					known := false
					for _, s := range perItem[callee] {
						if s.call == c {
							known = true
						}
					}
					if !known {
						perItem[callee] = append(perItem[callee], site{fn, c})
						changed = true
					}
				}
			}
		}
	}
	for _, fn := range w.InPkgs(rel) {
		name := w.Name(fn)
		if len(loopsOf[fn]) == 0 && perItem[fn] == nil {
			continue
		}
		inLoop := func(b *ssa.BasicBlock) *loop { return outermost(fn, b) }
		whole := perItem[fn] != nil // every block of a per-item function belongs to the iteration
		nuse := 0
		reported := map[string]bool{}
		for _, b := range fn.Blocks {
			lp := inLoop(b)
			if lp == nil && !whole {
				continue
			}
			for _, in := range b.Instrs {
				call, ok := in.(ssa.CallInstruction)
				if !ok {
					continue
				}
				com := call.Common()
				ops := append([]ssa.Value{}, com.Args...)
				if com.IsInvoke() {
					ops = append(ops, com.Value)
				}
				for _, op := range ops {
					// origins of the operand
					seen := map[ssa.Value]bool{}
					var visit func(v ssa.Value)
					visit = func(v ssa.Value) {
						if v == nil || seen[v] {
							return
						}
						seen[v] = true
						switch x := v.(type) {
						case *ssa.MakeInterface:
							visit(x.X)
							return
						case *ssa.ChangeInterface:
							visit(x.X)
							return
						case *ssa.ChangeType:
							visit(x.X)
							return
						case *ssa.Phi:
							for _, e := range x.Edges {
								visit(e)
							}
							return
						case *ssa.UnOp:
							if a, ok := x.X.(*ssa.Alloc); ok {
								for _, r := range *a.Referrers() {
									if s, ok := r.(*ssa.Store); ok && s.Addr == a {
										visit(s.Val)
									}
								}
								return
							}
						}
						if !isVisitorState(v.Type()) {
							return
						}
						nuse++
						res.Count("uses", 1)
						def, ok := v.(ssa.Instruction)
						key := fmt.Sprintf("%s/%s", name, Expr(v))
						if par, isPar := v.(*ssa.Parameter); isPar && whole && lp == nil {
							// handed in by the loop that calls this function: created in that loop's iteration?
							idx := -1
							for i, q := range fn.Params {
								if q == par {
									idx = i
								}
							}
							fresh := idx >= 0
							for _, st := range perItem[fn] {
								args := st.call.Common().Args
								if idx < 0 || idx >= len(args) {
									fresh = false
									continue
								}
								ad, isInstr := args[idx].(ssa.Instruction)
								clp := outermost(st.caller, st.call.Block())
								if !(isInstr && ad.Block() != nil && (clp != nil && clp.body[ad.Block()] || clp == nil && perItem[st.caller] != nil)) {
									fresh = false
								}
							}
							if !reported[key] {
								reported[key] = true
								if fresh {
									res.OK(key, w.InstrPos(in), name, "created by the caller in the iteration that uses it")
								} else {
									res.Bad(key, w.InstrPos(in), name, fmt.Sprintf("%s is handed to the per-file helper by a caller that created it outside its loop: its state is carried from one file to the next", Expr(v)))
								}
							}
							return
						}
						if ok && def.Block() != nil && (whole && lp == nil || lp != nil && lp.body[def.Block()]) {
							if !reported[key] {
								res.OK(key, w.InstrPos(in), name, "created in the iteration that uses it")
								reported[key] = true
							}
							return
						}
						if !reported[key] {
							reported[key] = true
							res.Bad(key, w.InstrPos(in), name, fmt.Sprintf("%s is used inside the worker's loop but created outside it: its state is carried from one file to the next", Expr(v)))
						}
					}
					visit(op)
				}
			}
		}
	}
	return res
}
