package effects

import (
	"fmt"
	"go/token"
	"go/types"
	"strings"

	"golang.org/x/tools/go/ssa"

	"verif/internal/report"
)

// NilablePos decides rule nilable-pos. Two positions in the library are legitimately nil: the position of the
// parser's current token when that token is the end of the input (the scanner returns the end-of-input
// token without a position), and therefore the Pos of an error reported there. The rule requires that a
// position pointer loaded from `<parser>.currentToken.Position` or from `<error>.Pos` is only copied,
// handed on or compared - and dereferenced (a field read, `*p`) only where a test `p != nil` of the same
// expression dominates. A dereference without the test panics on the most common syntax error of all, the
// one found at the end of the file (seed C07-14: `pos := *p.currentToken.Position`).
func NilablePos(w *World, rels ...string) *report.RuleResult {
	res := report.NewResult("nilable-pos")
	// the parser's current token: a *Token field (currentToken) of a struct declared in one of the analysed packages,
	// whichever struct holds it (the parser itself or a part it embeds)
	parserPkgs := map[string]bool{}
	for _, fn := range w.InPkgs(rels...) {
		if fn.Pkg != nil {
			parserPkgs[fn.Pkg.Pkg.Path()] = true
		}
	}
	isNilableLoad := func(v ssa.Value) (string, bool) {
		ld, ok := v.(*ssa.UnOp)
		if !ok || ld.Op != token.MUL {
			return "", false
		}
		fa, ok := ld.X.(*ssa.FieldAddr)
		if !ok {
			return "", false
		}
		pt, ok := fa.Type().Underlying().(*types.Pointer)
		if !ok {
			return "", false
		}
		// the field must be a *position.Position
		pp, ok := pt.Elem().Underlying().(*types.Pointer)
		if !ok {
			return "", false
		}
		if n, ok := pp.Elem().(*types.Named); !ok || n.Obj().Name() != "Position" {
			return "", false
		}
		owner := fa.X.Type()
		if p, ok := owner.Underlying().(*types.Pointer); ok {
			owner = p.Elem()
		}
		on, _ := owner.(*types.Named)
		if on == nil {
			return "", false
		}
		field := fieldName(fa.X.Type(), fa.Field)
		switch {
		case on.Obj().Name() == "Error" && field == "Pos":
			return "the position of an error (nil for an error at the end of the input)", true
		case on.Obj().Name() == "Token" && field == "Position":
			// only the parser's current token: <parser>.currentToken.Position
			if tl, ok := fa.X.(*ssa.UnOp); ok && tl.Op == token.MUL {
				if tf, ok := tl.X.(*ssa.FieldAddr); ok {
					o := tf.X.Type()
					if p, ok := o.Underlying().(*types.Pointer); ok {
						o = p.Elem()
					}
					if n, ok := o.(*types.Named); ok && n.Obj().Pkg() != nil && parserPkgs[n.Obj().Pkg().Path()] && strings.Contains(strings.ToLower(fieldName(tf.X.Type(), tf.Field)), "token") {
						if _, isTok := tf.Type().Underlying().(*types.Pointer); isTok {
							return "the position of the parser's current token (nil for the end-of-input token)", true
						}
					}
				}
			}
		}
		return "", false
	}
	count := map[string]int{}
	for _, fn := range w.InPkgs(rels...) {
		for _, b := range fn.Blocks {
			for _, in := range b.Instrs {
				v, ok := in.(ssa.Value)
				if !ok {
					continue
				}
				what, ok := isNilableLoad(v)
				if !ok {
					continue
				}
				res.Count("loads", 1)
				name := w.Name(fn)
				refs := v.Referrers()
				if refs == nil {
					continue
				}
				for _, r := range *refs {
					deref := false
					switch x := r.(type) {
					case *ssa.FieldAddr:
						deref = x.X == v
					case *ssa.UnOp:
						deref = x.Op == token.MUL && x.X == v
					case *ssa.Field:
					}
					if !deref {
						continue
					}
					res.Count("dereferences", 1)
					count[name]++
					key := fmt.Sprintf("%s/deref:%s", name, strings.TrimPrefix(Expr(v), "*"))
					if count[name] > 1 {
						key += fmt.Sprintf("#%d", count[name])
					}
					if ok, how := guardedBy(r.Block(), v); ok {
						res.OK(key, w.InstrPos(r), name, "dominated by the test "+how)
					} else {
						res.Bad(key, w.InstrPos(r), name, what+" is dereferenced without a dominating nil test: the commonest syntax error, the one at the end of the file, panics here")
					}
				}
			}
		}
	}
	return res
}
