package effects

import (
	"fmt"
	"go/types"
	"sort"
	"strings"

	"golang.org/x/tools/go/ssa"

	"verif/internal/load"
	"verif/internal/report"
)

// FieldWriters decides a who-may-write rule: every instruction of the module that stores into a field of
// the named struct type (through a field address, whatever the path to the object) lies in one of the
// allowed packages. Tokens and positions are built by the scanner (and the position builder) and are
// only read afterwards: a parser wrapper that edits a token between the scanner and the grammar, or a
// grammar helper that rewrites a position in place, changes what every holder of that object sees.
func FieldWriters(w *World, rule, typeKey string, allowed map[string]string, reviewed map[string]string) *report.RuleResult {
	res := report.NewResult(rule)
	var bad = map[string][]string{}
	badPos := map[string]string{}
	n := 0
	for _, fn := range w.Funcs {
		rel := load.Rel(fnPkg(fn))
		for _, b := range fn.Blocks {
			for _, in := range b.Instrs {
				st, ok := in.(*ssa.Store)
				if !ok {
					continue
				}
				fa, ok := st.Addr.(*ssa.FieldAddr)
				if !ok {
					continue
				}
				nm := namedOf(fa.X.Type())
				if nm == nil || nm.Obj().Pkg() == nil || load.Rel(nm.Obj().Pkg())+"."+nm.Obj().Name() != typeKey {
					continue
				}
				n++
				if _, ok := allowed[rel]; ok {
					continue
				}
				// a store into an object this very function allocated (a literal being filled in) creates, it does not edit
				if a, ok := fa.X.(*ssa.Alloc); ok && a.Heap {
					continue
				}
				k := w.Name(fn)
				what := fmt.Sprintf("%s = %s", fieldName(fa.X.Type(), fa.Field), Expr(st.Val))
				if why, ok := reviewed[k+"|"+what]; ok {
					res.OK("reviewed/"+k+"/"+what, w.InstrPos(in), k, "reviewed: "+why)
					continue
				}
				bad[k] = append(bad[k], what)
				if _, seen := badPos[k]; !seen {
					badPos[k] = w.InstrPos(in)
				}
			}
		}
	}
	res.Count("stores", n)
	var ks []string
	for k := range bad {
		ks = append(ks, k)
	}
	sort.Strings(ks)
	for _, k := range ks {
		res.Bad(k, badPos[k], k, fmt.Sprintf("%s writes fields of an existing %s (%s); only %s may: every other holder of the object sees the change", k, typeKey, strings.Join(dedupeSS(bad[k]), "; "), strings.Join(sortedKeysS(allowed), ", ")))
	}
	var why []string
	for _, k := range sortedKeysS(allowed) {
		why = append(why, k+" ("+allowed[k]+")")
	}
	res.OK("writers", typeKey, "", fmt.Sprintf("%d stores into %s fields, all in %s or into objects the storing function allocated", n, typeKey, strings.Join(why, ", ")))
	return res
}

func dedupeSS(ss []string) []string {
	seen := map[string]bool{}
	var out []string
	for _, s := range ss {
		if !seen[s] {
			seen[s] = true
			out = append(out, s)
		}
	}
	return out
}

func sortedKeysS(m map[string]string) []string {
	var ks []string
	for k := range m {
		ks = append(ks, k)
	}
	sort.Strings(ks)
	return ks
}

// SrcPlumbing decides that the scanner works on the caller's bytes from their first byte: (a) every call
// of the scanner's constructor in the entry package hands it the entry function's own []byte parameter,
// unchanged; (b) inside the constructor (and the unexported helpers it calls) the cursor fields are only
// ever set to 0. A trimmed or re-sliced source, or a cursor that starts beyond 0, shifts every offset
// against the caller's buffer or leaves bytes that no token covers.
func SrcPlumbing(w *World, entryRel, scanRel string) *report.RuleResult {
	res := report.NewResult("src-plumbing")
	canonParams = true
	defer func() { canonParams = false }()
	ctorName := scanRel + ".NewLexer"
	ctor := w.fn(ctorName)
	if ctor == nil {
		res.Bad("ctor", scanRel, ctorName, "undecided:anchor: the scanner's constructor NewLexer was not found")
		return res
	}
	// which parameter of the constructor is the source
	srcIdx := -1
	for i, p := range ctor.Params {
		if sl, ok := p.Type().Underlying().(*types.Slice); ok {
			if b, ok := sl.Elem().Underlying().(*types.Basic); ok && b.Kind() == types.Byte {
				srcIdx = i
			}
		}
	}
	if srcIdx < 0 {
		res.Bad("ctor/param", w.Pos(ctor.Pos()), ctorName, "undecided:anchor: NewLexer has no []byte parameter")
		return res
	}
	for _, fn := range w.InPkgs(entryRel) {
		for _, b := range fn.Blocks {
			for _, in := range b.Instrs {
				c, ok := in.(*ssa.Call)
				if !ok || c.Common().StaticCallee() != ctor {
					continue
				}
				res.Count("ctor-calls", 1)
				key := "arg/" + w.Name(fn)
				arg := c.Common().Args[srcIdx]
				// origins: every value that can flow here must be a []byte parameter of fn itself
				okAll, what := true, []string{}
				seen := map[ssa.Value]bool{}
				var visit func(v ssa.Value)
				visit = func(v ssa.Value) {
					if seen[v] {
						return
					}
					seen[v] = true
					switch x := v.(type) {
					case *ssa.Parameter:
						if x.Parent() != fn {
							okAll = false
						}
						what = append(what, Expr(x))
					case *ssa.Phi:
						for _, e := range x.Edges {
							visit(e)
						}
					case *ssa.ChangeType:
						visit(x.X)
					case *ssa.UnOp:
						if a, ok := x.X.(*ssa.Alloc); ok {
							// a local: everything stored into it
							found := false
							for _, r := range *a.Referrers() {
								if s, ok := r.(*ssa.Store); ok && s.Addr == a {
									found = true
									visit(s.Val)
								}
							}
							if found {
								return
							}
						}
						okAll = false
						what = append(what, Expr(v))
					default:
						okAll = false
						what = append(what, Expr(v))
					}
				}
				visit(arg)
				if okAll && len(what) > 0 {
					res.OK(key, w.InstrPos(in), w.Name(fn), "NewLexer receives the caller's buffer "+strings.Join(dedupeSS(what), ", ")+" itself")
				} else {
					res.Bad(key, w.InstrPos(in), w.Name(fn), fmt.Sprintf("NewLexer receives %s, not the []byte the caller passed: offsets, values and coverage no longer refer to the caller's source", strings.Join(dedupeSS(what), ", ")))
				}
			}
		}
	}
	// cursor fields at construction
	cursor := map[string]bool{"p": true, "ts": true, "te": true}
	bad := []string{}
	nst := 0
	deepInstrs(ctor, func(in ssa.Instruction) {
		st, ok := in.(*ssa.Store)
		if !ok {
			return
		}
		fa, ok := st.Addr.(*ssa.FieldAddr)
		if !ok {
			return
		}
		f := fieldName(fa.X.Type(), fa.Field)
		nm := namedOf(fa.X.Type())
		if nm == nil || nm.Obj().Pkg() == nil || load.Rel(nm.Obj().Pkg()) != scanRel || !cursor[f] {
			return
		}
		nst++
		if c, ok := st.Val.(*ssa.Const); ok && c.Value != nil && c.Value.ExactString() == "0" {
			return
		}
		bad = append(bad, fmt.Sprintf("%s = %s (%s)", f, Expr(st.Val), w.InstrPos(in)))
	})
	res.Count("cursor-stores", nst)
	if len(bad) == 0 {
		res.OK("ctor/cursor", w.Pos(ctor.Pos()), ctorName, fmt.Sprintf("the cursor and token bounds start at 0 (%d stores, all of the constant 0)", nst))
	} else {
		res.Bad("ctor/cursor", w.Pos(ctor.Pos()), ctorName, "the scanner does not start at the first byte of the source: "+strings.Join(bad, "; ")+": the bytes before the cursor are covered by no token and are lost when the tree is printed")
	}
	return res
}
