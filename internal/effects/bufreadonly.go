package effects

import (
	"fmt"
	"go/types"

	"golang.org/x/tools/go/ssa"

	"verif/internal/load"
	"verif/internal/report"
)

func isByteSlice(t types.Type) bool {
	s, ok := t.Underlying().(*types.Slice)
	if !ok {
		return false
	}
	b, ok := s.Elem().Underlying().(*types.Basic)
	return ok && b.Kind() == types.Byte
}

// BufReadonly decides rule buf-readonly: in the parsing packages no
// instruction writes an element of a byte slice that is not storage created
// in the same function. The caller's buffer is only ever reachable as a
// []byte (Lexer.data, Token.Value, node Value fields, heredocLabel, the src
// parameter), so this is exactly "the input buffer is left unchanged".
func BufReadonly(w *World, pkgs ...string) *report.RuleResult {
	res := report.NewResult("buf-readonly")
	fns := w.StaticClosure(w.InPkgs(pkgs...), nil)
	res.Count("functions", len(fns))
	for _, fn := range fns {
		name := w.Name(fn)
		found := map[string]string{}
		pos := map[string]string{}
		flag := func(kind string, in ssa.Instruction, detail string) {
			k := name + "/" + kind
			if _, ok := found[k]; !ok {
				found[k] = detail
				pos[k] = w.InstrPos(in)
			}
		}
		n := 0
		for _, b := range fn.Blocks {
			for _, in := range b.Instrs {
				n++
				switch x := in.(type) {
				case *ssa.Store:
					if ia, ok := x.Addr.(*ssa.IndexAddr); ok && isByteSlice(ia.X.Type()) {
						res.Count("byte-writes", 1)
						if !Fresh(ia.X, map[ssa.Value]bool{}) {
							flag("index-store:"+Expr(ia.X), in, "writes an element of byte slice "+Expr(ia.X)+", which may be the caller's input buffer")
						}
					}
				case ssa.CallInstruction:
					com := x.Common()
					if bi, ok := com.Value.(*ssa.Builtin); ok {
						switch bi.Name() {
						case "append", "copy", "clear":
							if len(com.Args) > 0 && isByteSlice(com.Args[0].Type()) {
								res.Count("byte-writes", 1)
								if !Fresh(com.Args[0], map[ssa.Value]bool{}) {
									flag(bi.Name()+":"+Expr(com.Args[0]), in, bi.Name()+" writes into byte slice "+Expr(com.Args[0])+", which may share storage with the caller's input buffer")
								}
							}
						}
						continue
					}
					callee := com.StaticCallee()
					if callee != nil && load.InModule(fnPkg(callee)) {
						continue
					}
					// byte slices handed to code outside the module
					for _, a := range com.Args {
						if mi, ok := a.(*ssa.MakeInterface); ok {
							a = mi.X
						}
						if !isByteSlice(a.Type()) || Fresh(a, map[ssa.Value]bool{}) {
							continue
						}
						full := "func value"
						if callee != nil {
							full = calleeName(callee)
						} else if com.IsInvoke() {
							full = types.TypeString(com.Value.Type(), shortQual) + "." + com.Method.Name()
						}
						res.Count("external-sinks", 1)
						if !readOnlyExt(full, callee) && !readOnlyInvoke[full] {
							flag("extcall:"+full, in, "passes byte slice "+Expr(a)+" to "+full+", which is not in the reviewed read-only set")
						}
					}
				}
			}
		}
		if len(found) == 0 {
			res.OK(name, w.Pos(fn.Pos()), name, fmt.Sprintf("%d instructions: no element store, append, copy or clear on a byte slice that is not local storage", n))
			continue
		}
		for k, d := range found {
			res.Bad(k, pos[k], name, d)
		}
	}
	return res
}
