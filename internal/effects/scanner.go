package effects

import (
	"regexp"
	"go/types"
	"fmt"
	"go/token"
	"sort"
	"strings"

	"golang.org/x/tools/go/ssa"

	"verif/internal/load"
	"verif/internal/report"
)

func (w *World) fn(name string) *ssa.Function {
	for _, f := range w.Funcs {
		if w.Name(f) == name {
			return f
		}
	}
	return nil
}

// storesTo lists "field = expr" for every Store through a FieldAddr in fn.
func storesTo(fn *ssa.Function) map[string][]string {
	out := map[string][]string{}
	for _, b := range fn.Blocks {
		for _, in := range b.Instrs {
			st, ok := in.(*ssa.Store)
			if !ok {
				continue
			}
			if fa, ok := st.Addr.(*ssa.FieldAddr); ok {
				k := storeBase(fa.X) + "." + fieldName(fa.X.Type(), fa.Field)
				out[k] = append(out[k], Expr(st.Val))
			}
		}
	}
	return out
}

// storeBase names the object a field store goes to; locals are told apart by their type.
func storeBase(x ssa.Value) string {
	x = outerOf(x)
	if a, ok := x.(*ssa.Alloc); ok {
		t := a.Type()
		if p, ok := t.Underlying().(*types.Pointer); ok {
			t = p.Elem()
		}
		if n, ok := t.(*types.Named); ok {
			return "local:" + n.Obj().Name()
		}
	}
	return strings.TrimPrefix(Expr(x), "&")
}

// storesToDeep: as storesTo, including the stores made by the unexported helpers of the package that fn
// calls, in the context of the call.
func storesToDeep(fn *ssa.Function) map[string][]string {
	out := map[string][]string{}
	deepInstrs(fn, func(in ssa.Instruction) {
		st, ok := in.(*ssa.Store)
		if !ok {
			return
		}
		if fa, ok := st.Addr.(*ssa.FieldAddr); ok {
			k := storeBase(fa.X) + "." + fieldName(fa.X.Type(), fa.Field)
			out[k] = append(out[k], Expr(st.Val))
		}
	})
	return out
}

// ScannerHelpers decides rule scanner-helpers (C04): the hand-written glue
// between the generated scanner and the tokens it hands out.
func ScannerHelpers(w *World, rel string) *report.RuleResult {
	res := report.NewResult("scanner-helpers")
	canonParams = true
	defer func() { canonParams = false }()
	get := func(name string) *ssa.Function {
		f := w.fn(rel + "." + name)
		if f == nil {
			res.Bad(name, rel, name, "function "+name+" not found")
		}
		return f
	}
	// how the scanner holds its pools (a pointer field, a value field, through a helper) does not matter: what is
	// required is that the object comes from the Get of the position / token pool
	poolRe := regexp.MustCompile(`pkg/(position|token)\.Pool\.Get\([^()]*\)`)
	canon := func(x string) string { return poolRe.ReplaceAllString(x, "pkg/$1.Pool.Get(pool)") }
	expect := func(key string, fn *ssa.Function, got map[string][]string, field, want, why string) {
		res.Count("facts", 1)
		field, want = canon(field), canon(want)
		var vs []string
		for k, v := range got {
			if canon(k) == field {
				for _, x := range v {
					vs = append(vs, canon(x))
				}
			}
		}
		ok := len(vs) >= 1
		for _, v := range vs {
			if v != want {
				ok = false
			}
		}
		if ok {
			res.OK(key+"/"+field, w.Pos(fn.Pos()), w.Name(fn), field+" = "+want)
		} else {
			res.Bad(key+"/"+field, w.Pos(fn.Pos()), w.Name(fn), fmt.Sprintf("%s is assigned %v; %s requires %s", field, vs, why, want))
		}
	}
	if fn := get("Lexer.setTokenPosition"); fn != nil {
		st := storesToDeep(fn) // also what helpers it calls store through the position they are handed
		posE := "pkg/position.Pool.Get($recv.positionPool)"
		expect("setTokenPosition", fn, st, posE+".StartPos", "$recv.ts", "the recorded start offset")
		expect("setTokenPosition", fn, st, posE+".EndPos", "$recv.te", "the recorded end offset")
		expect("setTokenPosition", fn, st, posE+".StartLine", rel+".NewLines.GetLine(&$recv.newLines, $recv.ts)", "the start line")
		expect("setTokenPosition", fn, st, posE+".EndLine", rel+".NewLines.GetLine(&$recv.newLines, ($recv.te-1))", "the end line (line of the last byte)")
		expect("setTokenPosition", fn, st, "$1.Position", posE, "the position object of the token")
	}
	if fn := get("Lexer.addFreeFloatingToken"); fn != nil {
		st := storesToDeep(fn)
		tk := "pkg/token.Pool.Get($recv.tokenPool)"
		expect("addFreeFloatingToken", fn, st, tk+".ID", "$2", "the kind of the skipped text")
		expect("addFreeFloatingToken", fn, st, tk+".Value", "$recv.data[$3:$4]", "the skipped text")
		// position set through setTokenPosition(skippedTkn), appended to t.FreeFloating on every path
		setpos, appended := false, 0
		deepInstrs(fn, func(in ssa.Instruction) {
			if c, ok := in.(*ssa.Call); ok {
				if callee := c.Common().StaticCallee(); callee != nil && callee.Name() == "setTokenPosition" && len(c.Common().Args) == 2 && canon(Expr(c.Common().Args[1])) == canon(tk) {
					setpos = true
				}
				if bi, ok := c.Common().Value.(*ssa.Builtin); ok && bi.Name() == "append" {
					if strings.Contains(Expr(c.Common().Args[0]), "$1.FreeFloating") {
						appended++
					}
				}
			}
		})
		if !setpos {
			// setTokenPosition written out in place: the same stores it makes, for the skipped token
			posE := "pkg/position.Pool.Get($recv.positionPool)"
			same := func(field, want string) bool {
				var vs []string
				for k, v := range st {
					if canon(k) == canon(field) {
						vs = append(vs, v...)
					}
				}
				if len(vs) == 0 {
					return false
				}
				for _, v := range vs {
					if canon(v) != canon(want) {
						return false
					}
				}
				return true
			}
			setpos = same(posE+".StartPos", "$recv.ts") && same(posE+".EndPos", "$recv.te") &&
				same(posE+".StartLine", rel+".NewLines.GetLine(&$recv.newLines, $recv.ts)") &&
				same(posE+".EndLine", rel+".NewLines.GetLine(&$recv.newLines, ($recv.te-1))") &&
				same(tk+".Position", posE)
		}
		res.Count("facts", 2)
		res.Check(setpos, "addFreeFloatingToken/position", w.Pos(fn.Pos()), w.Name(fn), "position taken by setTokenPosition from ts/te", "the free-floating token does not get its position from setTokenPosition")
		res.Check(appended == 1, "addFreeFloatingToken/append", w.Pos(fn.Pos()), w.Name(fn), "appended once to the token's FreeFloating list", fmt.Sprintf("the skipped token is appended %d times to FreeFloating", appended))
		// the append must post-dominate: every return is reached after the store of t.FreeFloating
		okAll := true
		for _, b := range fn.Blocks {
			if _, isRet := b.Instrs[len(b.Instrs)-1].(*ssa.Return); isRet {
				found := false
				for _, in := range b.Instrs {
					if s, ok := in.(*ssa.Store); ok {
						if fa, ok := s.Addr.(*ssa.FieldAddr); ok && fieldName(fa.X.Type(), fa.Field) == "FreeFloating" {
							found = true
						}
					}
				}
				if !found {
					okAll = false
				}
			}
		}
		res.Check(okAll, "addFreeFloatingToken/always", w.Pos(fn.Pos()), w.Name(fn), "the list is stored on every returning path", "some path returns without storing the extended FreeFloating list: the skipped text is dropped")
	}
	if fn := get("NewLexer"); fn != nil {
		st := storesTo(fn)
		expect("NewLexer", fn, st, "local:Lexer.data", "$1", "the scanner must work on the caller's bytes at the caller's offsets")
		expect("NewLexer", fn, st, "local:Lexer.pe", "len($1)", "end of input")
	}
	if fn := get("Lexer.Lex"); fn != nil {
		st := storesTo(fn)
		tk := "pkg/token.Pool.Get($recv.tokenPool)"
		expect("Lex", fn, st, tk+".Value", "$recv.data[$recv.ts:$recv.te]", "the token text")
		res.Count("facts", 1)
		var ids []string
		for k, v := range st {
			if canon(k) == canon(tk+".ID") {
				ids = append(ids, v...)
			}
		}
		res.Check(len(ids) == 1 && (strings.HasPrefix(ids[0], "phi(") || ids[0] == "local" || strings.Contains(ids[0], "tok")), "Lex/ID", w.Pos(fn.Pos()), w.Name(fn), "the token id is the value of tok", fmt.Sprintf("token id assigned from %v", ids))
	}
	// every list stored into a token's FreeFloating field is the token's own list extended, or a
	// list allocated by this call: a window of storage shared between tokens lets the trivia of one
	// token overwrite another's
	for _, fn := range w.InPkgs(rel) {
		for _, b := range fn.Blocks {
			for _, in := range b.Instrs {
				st, ok := in.(*ssa.Store)
				if !ok {
					continue
				}
				fa, ok := st.Addr.(*ssa.FieldAddr)
				if !ok || fieldName(fa.X.Type(), fa.Field) != "FreeFloating" {
					continue
				}
				res.Count("ff-list-stores", 1)
				seen := map[ssa.Value]bool{}
				var own func(v ssa.Value) string
				own = func(v ssa.Value) string {
					if seen[v] {
						return ""
					}
					seen[v] = true
					switch x := v.(type) {
					case *ssa.MakeSlice:
						return ""
					case *ssa.Const:
						if x.IsNil() {
							return ""
						}
					case *ssa.Phi:
						for _, e := range x.Edges {
							if why := own(e); why != "" {
								return why
							}
						}
						return ""
					case *ssa.ChangeType:
						return own(x.X)
					case *ssa.UnOp:
						if x.Op == token.MUL {
							if fa2, ok := x.X.(*ssa.FieldAddr); ok && fieldName(fa2.X.Type(), fa2.Field) == "FreeFloating" && fa2.X == fa.X {
								return "" // the token's own list
							}
						}
					case *ssa.Call:
						if bi, ok := x.Common().Value.(*ssa.Builtin); ok && bi.Name() == "append" {
							return own(x.Common().Args[0])
						}
					case *ssa.Slice:
						if _, isAlloc := x.X.(*ssa.Alloc); isAlloc {
							return "" // make with constant bounds: an array allocated by this call
						}
						if x.Max != nil {
							// a window with its capacity cut off: appends beyond it reallocate instead of running
							// into a neighbour (that the windows themselves are disjoint is not decided here)
							return ""
						}
						return "a sub-slice (without a capacity bound) of " + Expr(x.X) + ", storage that outlives the call"
					}
					return Expr(v) + " (not allocated by this call)"
				}
				key := strings.TrimPrefix(w.Name(fn), rel+".") + "/ff-list"
				if why := own(st.Val); why == "" {
					res.OK(key, w.Pos(st.Pos()), w.Name(fn), "FreeFloating is assigned the token's own list extended, or a list allocated by this call")
				} else {
					res.Bad(key, w.Pos(st.Pos()), w.Name(fn), "FreeFloating is assigned "+why+": appending to one token's list can overwrite what was appended to another's")
				}
			}
		}
	}
	// who writes pe / data
	for _, fn := range w.InPkgs(rel) {
		if w.Name(fn) == rel+".NewLexer" {
			continue
		}
		for _, b := range fn.Blocks {
			for _, in := range b.Instrs {
				st, ok := in.(*ssa.Store)
				if !ok {
					continue
				}
				fa, ok := st.Addr.(*ssa.FieldAddr)
				if !ok {
					continue
				}
				f := fieldName(fa.X.Type(), fa.Field)
				if n := namedOf(outerOf(fa.X).Type()); n != nil && n.Obj().Name() == "Lexer" && (f == "pe" || f == "data") {
					res.Bad("who-writes/"+w.Name(fn)+"/"+f, w.Pos(fn.Pos()), w.Name(fn), fmt.Sprintf("Lexer.%s is assigned outside NewLexer (%s): offsets no longer refer to the caller's buffer", f, Expr(st.Val)))
				}
			}
		}
	}
	res.OK("who-writes", rel, "", "Lexer.data and Lexer.pe are assigned only by NewLexer")
	return res
}

// PredPure: the functions called from transition conditions of the generated
// scanner (lex.is…) and everything they call must not move the cursor.
func PredPure(w *World, rel string) *report.RuleResult {
	res := report.NewResult("pred-pure")
	lexFn := w.fn(rel + ".Lexer.Lex")
	if lexFn == nil {
		res.Bad("Lex", rel, "", "Lexer.Lex not found")
		return res
	}
	preds := map[*ssa.Function]bool{}
	for _, b := range lexFn.Blocks {
		for _, in := range b.Instrs {
			if c, ok := in.(*ssa.Call); ok {
				if callee := c.Common().StaticCallee(); callee != nil && strings.HasPrefix(callee.Name(), "is") && load.InModule(fnPkg(callee)) {
					preds[callee] = true
				}
			}
		}
	}
	var roots []*ssa.Function
	for f := range preds {
		roots = append(roots, f)
	}
	sort.Slice(roots, func(i, j int) bool { return w.Name(roots[i]) < w.Name(roots[j]) })
	cursor := map[string]bool{"p": true, "ts": true, "te": true, "cs": true, "top": true, "act": true, "pe": true, "stack": true}
	for _, root := range roots {
		res.Count("predicates", 1)
		var bad []string
		for _, fn := range w.StaticClosure([]*ssa.Function{root}, nil) {
			for _, b := range fn.Blocks {
				for _, in := range b.Instrs {
					st, ok := in.(*ssa.Store)
					if !ok {
						continue
					}
					fa, ok := st.Addr.(*ssa.FieldAddr)
					if !ok {
						continue
					}
					if n := namedOf(outerOf(fa.X).Type()); n != nil && n.Obj().Name() == "Lexer" && cursor[fieldName(fa.X.Type(), fa.Field)] {
						bad = append(bad, fmt.Sprintf("%s assigns lex.%s (%s)", w.Name(fn), fieldName(fa.X.Type(), fa.Field), w.InstrPos(in)))
					}
				}
			}
		}
		key := w.Name(root)
		if len(bad) == 0 {
			res.OK(key, w.Pos(root.Pos()), key, "does not assign the cursor, token bounds, state or call stack")
		} else {
			sort.Strings(bad)
			res.Bad(key, w.Pos(root.Pos()), key, "a transition condition has a side effect on the scanner: "+strings.Join(bad, "; ")+": bytes are skipped without being recorded and the condition's outcome changes what the action sees")
		}
	}
	return res
}

var _ = token.NoPos
