package effects

import (
	"fmt"
	"regexp"
	"sort"
	"strings"

	"golang.org/x/tools/go/ssa"

	"verif/internal/report"
)

// VersionNew decides, on go/ssa, that version.New(s) yields a Version whose
// Major is segment 0 and whose Minor is segment 1 of s split at ".", each
// parsed by strconv.ParseUint(…, 10, 64) — however the function spreads this
// over locals and helpers. Adds obligation "New" to res.
func VersionNew(w *World, rel string, res *report.RuleResult) {
	fn := w.fn(rel + ".New")
	if fn == nil {
		res.Unknown("New", "-", "", "undecided:anchor: "+rel+".New not found")
		return
	}
	pos := w.Pos(fn.Pos())
	canonParams = true
	defer func() { canonParams = false }()
	got := map[string]map[string]bool{"Major": {}, "Minor": {}}
	returns := 0
	for _, b := range fn.Blocks {
		for _, in := range b.Instrs {
			r, ok := in.(*ssa.Return)
			if !ok || len(r.Results) != 2 {
				continue
			}
			if c, isConst := r.Results[0].(*ssa.Const); isConst && c.Value == nil {
				continue // the error paths return nil
			}
			returns++
			al, ok := r.Results[0].(*ssa.Alloc)
			if !ok {
				got["Major"][Expr(r.Results[0])+" (not a Version built by this call)"] = true
				continue
			}
			st := allocFieldStoresAll(al)
			for _, f := range []string{"Major", "Minor"} {
				if len(st[f]) == 0 {
					got[f]["<never assigned>"] = true
				}
				for _, v := range st[f] {
					got[f][Expr(v)] = true
				}
			}
		}
	}
	var problems []string
	if returns == 0 {
		problems = append(problems, "no path returns a Version")
	}
	want := regexp.MustCompile(`^strconv\.ParseUint\(strings\.Split(N)?\(\$1, "\."(, [0-9]+)?\)\[(\d+)\], (\d+), (\d+)\)#0$`)
	for f, idx := range map[string]string{"Major": "0", "Minor": "1"} {
		var vs []string
		for v := range got[f] {
			vs = append(vs, v)
		}
		sort.Strings(vs)
		for _, v := range vs {
			m := want.FindStringSubmatch(v)
			switch {
			case m == nil:
				problems = append(problems, fmt.Sprintf("%s is assigned %s, not the result of strconv.ParseUint on a segment of the argument split at \".\"", f, v))
			case m[3] != idx:
				problems = append(problems, fmt.Sprintf("%s comes from segment %s; want segment %s", f, m[3], idx))
			case m[4] != "10":
				problems = append(problems, "segments are not parsed in base 10")
			case m[5] != "64":
				problems = append(problems, "segments are not parsed as 64-bit values (the fields are uint64)")
			}
		}
		if len(vs) == 0 {
			problems = append(problems, f+" is never assigned")
		}
	}
	res.Check(len(problems) == 0, "New", pos, "version.New", "splits at '.', parses segment 0 into Major and segment 1 into Minor with ParseUint(…, 10, 64)", strings.Join(problems, "; "))
}

// allocFieldStoresAll: field → every value stored into that field of a local/new struct.
func allocFieldStoresAll(a *ssa.Alloc) map[string][]ssa.Value {
	out := map[string][]ssa.Value{}
	for _, r := range *a.Referrers() {
		if x, ok := r.(*ssa.FieldAddr); ok {
			f := fieldName(a.Type(), x.Field)
			for _, r2 := range *x.Referrers() {
				if st, ok := r2.(*ssa.Store); ok && st.Addr == x {
					out[f] = append(out[f], st.Val)
				}
			}
		}
	}
	return out
}
