package effects

import (
	"go/constant"
	"fmt"
	"go/ast"
	"go/token"
	"go/types"
	"sort"
	"strings"

	"golang.org/x/tools/go/ssa"

	"verif/internal/load"
	"verif/internal/report"
)

// isCallbackType: func(*errors.Error) with errors = the module's pkg/errors.
func isCallbackType(t types.Type) bool {
	sig, ok := t.Underlying().(*types.Signature)
	if !ok || sig.Params().Len() != 1 || sig.Results().Len() != 0 || sig.Recv() != nil {
		return false
	}
	n := namedOf(sig.Params().At(0).Type())
	return n != nil && n.Obj().Name() == "Error" && n.Obj().Pkg() != nil && load.Rel(n.Obj().Pkg()) == "pkg/errors" && load.InModule(n.Obj().Pkg())
}

// Expr renders an SSA value as a normalised expression (used to compare the
// provenance of arguments with what a rule expects). Loads through field
// addresses are written x.f; locals spilled to memory are looked through when
// they have exactly one store.
func Expr(v ssa.Value) string { return exprDepth(v, 0) }

// canonParams: render parameters by position ($recv, $1, $2, …) instead of by
// name, so that a rule which compares provenance expressions with an expected
// text does not depend on how parameters are called. Set by such rules only.
var canonParams bool

// inlineEnv: while the return expression of a straight-line accessor is rendered in place of a
// call of it, its parameters stand for the caller's argument expressions.
var inlineEnv []map[*ssa.Parameter]string

// accessor: fn is a straight-line function (one block, no defer/go/send/map update/panic; stores and
// calls allowed) — the kind of helper a refactoring extracts to name an expression or to build an
// object. Rendering a call of it as the expression it returns only names the value; what the helper
// stores is accounted for by the rules that collect stores (deepInstrs). Returns its return instruction.
func accessor(fn *ssa.Function) *ssa.Return {
	if fn == nil || len(fn.Blocks) != 1 || fn.Recover != nil {
		return nil
	}
	var ret *ssa.Return
	for _, in := range fn.Blocks[0].Instrs {
		switch x := in.(type) {
		case *ssa.MapUpdate, *ssa.Send, *ssa.Go, *ssa.Defer, *ssa.Panic, *ssa.RunDefers:
			return nil
		case *ssa.Return:
			ret = x
		}
	}
	if ret == nil || len(ret.Results) == 0 {
		return nil
	}
	return ret
}

func exprDepth(v ssa.Value, d int) string {
	if d > 12 {
		return "…"
	}
	switch x := v.(type) {
	case *ssa.Parameter:
		for i := len(inlineEnv) - 1; i >= 0; i-- {
			if s, ok := inlineEnv[i][x]; ok {
				return s
			}
		}
		if canonParams {
			for i, q := range x.Parent().Params {
				if q == x {
					if x.Parent().Signature.Recv() != nil {
						if i == 0 {
							return "$recv"
						}
						return fmt.Sprintf("$%d", i)
					}
					return fmt.Sprintf("$%d", i+1)
				}
			}
		}
		return x.Name()
	case *ssa.FreeVar:
		return "free:" + x.Name()
	case *ssa.Const:
		if x.Value == nil {
			return "nil"
		}
		return x.Value.ExactString()
	case *ssa.Global:
		return "&" + globalName(x)
	case *ssa.Function:
		return "func:" + x.Name()
	case *ssa.Alloc:
		return "&local"
	case *ssa.FieldAddr:
		if isEmbeddedField(x.X.Type(), x.Field) {
			// a struct embedded for grouping: its fields are named as if they were the outer struct's own
			return exprDepth(x.X, d+1)
		}
		return "&" + strings.TrimPrefix(exprDepth(x.X, d+1), "&") + "." + fieldName(x.X.Type(), x.Field)
	case *ssa.Field:
		if isEmbeddedField(x.X.Type(), x.Field) {
			return exprDepth(x.X, d+1)
		}
		return exprDepth(x.X, d+1) + "." + fieldName(x.X.Type(), x.Field)
	case *ssa.IndexAddr:
		return "&" + exprDepth(x.X, d+1) + "[" + exprDepth(x.Index, d+1) + "]"
	case *ssa.UnOp:
		if x.Op == token.MUL {
			if a, ok := x.X.(*ssa.Alloc); ok {
				if sv := singleStore(a); sv != nil {
					return exprDepth(sv, d+1)
				}
				return "local"
			}
			s := exprDepth(x.X, d+1)
			return strings.TrimPrefix(s, "&")
		}
		return x.Op.String() + exprDepth(x.X, d+1)
	case *ssa.BinOp:
		return "(" + exprDepth(x.X, d+1) + x.Op.String() + exprDepth(x.Y, d+1) + ")"
	case *ssa.Call:
		com := x.Common()
		var args []string
		for _, a := range com.Args {
			args = append(args, exprDepth(a, d+1))
		}
		// a call of an unexported straight-line accessor of the same package is rendered as the expression it
		// returns (exported functions are the API the rules name)
		if callee := com.StaticCallee(); callee != nil && x.Parent() != nil && callee.Pkg != nil && callee.Pkg == x.Parent().Pkg && len(inlineEnv) < 3 && !token.IsExported(callee.Name()) {
			if ret := accessor(callee); ret != nil && len(callee.Params) == len(args) {
				env := map[*ssa.Parameter]string{}
				for i, p := range callee.Params {
					env[p] = args[i]
				}
				inlineEnv = append(inlineEnv, env)
				var rs []string
				for _, r := range ret.Results {
					rs = append(rs, exprDepth(r, d+1))
				}
				inlineEnv = inlineEnv[:len(inlineEnv)-1]
				if len(rs) == 1 {
					return rs[0]
				}
				return "tuple(" + strings.Join(rs, "; ") + ")"
			}
		}
		name := "?"
		if callee := com.StaticCallee(); callee != nil {
			name = calleeName(callee)
		} else if b, ok := com.Value.(*ssa.Builtin); ok {
			name = b.Name()
		} else if com.IsInvoke() {
			name = exprDepth(com.Value, d+1) + "." + com.Method.Name()
		} else {
			name = "(" + exprDepth(com.Value, d+1) + ")"
		}
		return name + "(" + strings.Join(args, ", ") + ")"
	case *ssa.TypeAssert:
		return exprDepth(x.X, d+1) + ".(" + types.TypeString(x.AssertedType, shortQual) + ")"
	case *ssa.Extract:
		t := exprDepth(x.Tuple, d+1)
		if strings.HasPrefix(t, "tuple(") && strings.HasSuffix(t, ")") {
			parts := splitTuple(t[6 : len(t)-1])
			if x.Index < len(parts) {
				return parts[x.Index]
			}
		}
		return t + fmt.Sprintf("#%d", x.Index)
	case *ssa.MakeInterface:
		return exprDepth(x.X, d+1)
	case *ssa.ChangeType:
		return exprDepth(x.X, d+1)
	case *ssa.Convert:
		return types.TypeString(x.Type(), shortQual) + "(" + exprDepth(x.X, d+1) + ")"
	case *ssa.Slice:
		lo, hi := "", ""
		if x.Low != nil {
			lo = exprDepth(x.Low, d+1)
		}
		if x.High != nil {
			hi = exprDepth(x.High, d+1)
		}
		return exprDepth(x.X, d+1) + "[" + lo + ":" + hi + "]"
	case *ssa.Phi:
		if len(x.Edges) > 4 || d > 4 {
			return "phi(…)"
		}
		var es []string
		for _, e := range x.Edges {
			es = append(es, exprDepth(e, d+1))
		}
		sort.Strings(es)
		return "phi(" + strings.Join(es, "|") + ")"
	}
	return fmt.Sprintf("%T", v)
}

// isEmbeddedField: field i of struct (pointer) type t is an embedded struct (by value or by pointer).
func isEmbeddedField(t types.Type, i int) bool {
	if p, ok := t.Underlying().(*types.Pointer); ok {
		t = p.Elem()
	}
	st, ok := t.Underlying().(*types.Struct)
	if !ok || i >= st.NumFields() || !st.Field(i).Embedded() {
		return false
	}
	ft := st.Field(i).Type()
	if p, ok := ft.Underlying().(*types.Pointer); ok {
		ft = p.Elem()
	}
	_, isStruct := ft.Underlying().(*types.Struct)
	return isStruct
}

// outerOf: the object a field address ultimately belongs to, looking through embedded structs:
// &(&x.machine).ts belongs to x.
func outerOf(v ssa.Value) ssa.Value {
	for {
		switch x := v.(type) {
		case *ssa.FieldAddr:
			if isEmbeddedField(x.X.Type(), x.Field) {
				v = x.X
				continue
			}
		case *ssa.UnOp:
			if fa, ok := x.X.(*ssa.FieldAddr); ok && x.Op == token.MUL && isEmbeddedField(fa.X.Type(), fa.Field) {
				v = fa.X // an embedded pointer, loaded
				continue
			}
		}
		return v
	}
}

func fieldName(t types.Type, i int) string {
	if p, ok := t.Underlying().(*types.Pointer); ok {
		t = p.Elem()
	}
	if st, ok := t.Underlying().(*types.Struct); ok && i < st.NumFields() {
		return st.Field(i).Name()
	}
	return fmt.Sprintf("f%d", i)
}

// singleStore: the only value ever stored into a local that does not escape.
func singleStore(a *ssa.Alloc) ssa.Value {
	var val ssa.Value
	for _, r := range *a.Referrers() {
		switch x := r.(type) {
		case *ssa.Store:
			if x.Addr != a || val != nil {
				return nil
			}
			val = x.Val
		case *ssa.UnOp, *ssa.DebugRef:
		default:
			return nil
		}
	}
	return val
}

// sameExpr: two values denote the same location/value provided nothing
// writes the fields involved in between (callback fields are written only at
// construction: rule who-writes below).
func sameExpr(a, b ssa.Value) bool {
	if a == b {
		return true
	}
	return Expr(a) == Expr(b) && !strings.Contains(Expr(a), "local") && !strings.Contains(Expr(a), "phi(")
}

type cbCall struct {
	fn   *ssa.Function
	in   ssa.CallInstruction
	val  ssa.Value // the function value being called
	what string
}

func (w *World) callbackCalls() []cbCall {
	var out []cbCall
	for _, fn := range w.Funcs {
		for _, b := range fn.Blocks {
			for _, in := range b.Instrs {
				c, ok := in.(ssa.CallInstruction)
				if !ok {
					continue
				}
				com := c.Common()
				if com.IsInvoke() || com.StaticCallee() != nil {
					continue
				}
				if _, ok := com.Value.(*ssa.Builtin); ok {
					continue
				}
				if !isCallbackType(com.Value.Type()) {
					continue
				}
				out = append(out, cbCall{fn, c, com.Value, Expr(com.Value)})
			}
		}
	}
	return out
}

// guardedBy reports whether block b is only reachable after a test that
// proves val != nil.
func guardedBy(b *ssa.BasicBlock, val ssa.Value) (bool, string) {
	for d := b; d != nil; d = d.Idom() {
		idom := d.Idom()
		if idom == nil {
			break
		}
		ifi, ok := idom.Instrs[len(idom.Instrs)-1].(*ssa.If)
		if !ok {
			continue
		}
		// which successor leads to d?
		var branch int = -1
		for i, s := range idom.Succs {
			if s == d && len(d.Preds) == 1 {
				branch = i
			}
		}
		if branch < 0 || idom.Succs[0] == idom.Succs[1] {
			continue
		}
		cond := ifi.Cond
		flip := false
		for {
			if u, ok := cond.(*ssa.UnOp); ok && u.Op == token.NOT {
				cond, flip = u.X, !flip
				continue
			}
			break
		}
		if call, ok := cond.(*ssa.Call); ok {
			// a one-line predicate of the object: func (s *T) installed() bool { return s.f != nil }
			if what, neq, ok := nilPredicate(call); ok && what == Expr(val) && !strings.Contains(what, "local") && !strings.Contains(what, "phi(") {
				if flip {
					neq = !neq
				}
				if (neq && branch == 0) || (!neq && branch == 1) {
					return true, what + " != nil (through " + call.Call.StaticCallee().Name() + ")"
				}
			}
			continue
		}
		bin, ok := cond.(*ssa.BinOp)
		if !ok {
			continue
		}
		var other ssa.Value
		if isNilConst(bin.Y) {
			other = bin.X
		} else if isNilConst(bin.X) {
			other = bin.Y
		} else {
			continue
		}
		if !sameExpr(other, val) {
			continue
		}
		neq := bin.Op == token.NEQ
		if flip {
			neq = !neq
		}
		if bin.Op != token.NEQ && bin.Op != token.EQL {
			continue
		}
		if (neq && branch == 0) || (!neq && branch == 1) {
			return true, Expr(other) + " != nil"
		}
	}
	return false, ""
}

// nilPredicate: call is a static call of a function with one block that returns `<param i>.<field> != nil` (or
// == nil); the expression is rendered in the caller's terms (the argument in place of the parameter).
func nilPredicate(call *ssa.Call) (what string, neq bool, ok bool) {
	callee := call.Call.StaticCallee()
	if callee == nil || len(callee.Blocks) != 1 {
		return "", false, false
	}
	var ret *ssa.Return
	for _, in := range callee.Blocks[0].Instrs {
		if r, isRet := in.(*ssa.Return); isRet {
			ret = r
		}
	}
	if ret == nil || len(ret.Results) != 1 {
		return "", false, false
	}
	bin, isBin := ret.Results[0].(*ssa.BinOp)
	if !isBin || (bin.Op != token.NEQ && bin.Op != token.EQL) {
		return "", false, false
	}
	var other ssa.Value
	switch {
	case isNilConst(bin.Y):
		other = bin.X
	case isNilConst(bin.X):
		other = bin.Y
	default:
		return "", false, false
	}
	ld, isLoad := other.(*ssa.UnOp)
	if !isLoad || ld.Op != token.MUL {
		return "", false, false
	}
	fa, isFA := ld.X.(*ssa.FieldAddr)
	if !isFA {
		return "", false, false
	}
	par, isPar := fa.X.(*ssa.Parameter)
	if !isPar {
		return "", false, false
	}
	idx := -1
	for i, q := range callee.Params {
		if q == par {
			idx = i
		}
	}
	args := call.Call.Args
	if idx < 0 || idx >= len(args) {
		return "", false, false
	}
	// the same load in the caller's terms
	return Expr(args[idx]) + "." + fieldName(fa.X.Type(), fa.Field), bin.Op == token.NEQ, true
}

func isNilConst(v ssa.Value) bool {
	c, ok := v.(*ssa.Const)
	return ok && c.Value == nil
}

// CbGuard decides rule cb-guard: every call of an error-callback value is
// dominated by a nil test of the same expression; callback fields are written
// only into freshly allocated objects.
func CbGuard(w *World) *report.RuleResult {
	res := report.NewResult("cb-guard")
	calls := w.callbackCalls()
	count := map[string]int{}
	for _, c := range calls {
		name := w.Name(c.fn)
		count[name]++
		key := fmt.Sprintf("%s/call:%s", name, c.what)
		if count[name] > 1 {
			key += fmt.Sprintf("#%d", count[name])
		}
		res.Count("calls", 1)
		if ok, how := guardedBy(c.in.Block(), c.val); ok {
			res.OK(key, w.InstrPos(c.in), name, "dominated by the test "+how)
		} else {
			res.Bad(key, w.InstrPos(c.in), name, "the error callback "+c.what+" is called without a dominating nil test: a nil ErrorHandlerFunc makes this call panic")
		}
	}
	// who-writes: stores of callback-typed fields
	for _, fn := range w.Funcs {
		for _, b := range fn.Blocks {
			for _, in := range b.Instrs {
				st, ok := in.(*ssa.Store)
				if !ok {
					continue
				}
				fa, ok := st.Addr.(*ssa.FieldAddr)
				if !ok || !isCallbackType(st.Val.Type()) {
					continue
				}
				res.Count("field-stores", 1)
				name := w.Name(fn)
				key := name + "/store:" + fieldName(fa.X.Type(), fa.Field)
				if Fresh(fa.X, map[ssa.Value]bool{}) {
					res.OK(key, w.InstrPos(in), name, "callback field initialised in a freshly allocated object")
				} else {
					res.Bad(key, w.InstrPos(in), name, "callback field of an existing object is overwritten: a nil test made earlier no longer protects later calls")
				}
			}
		}
	}
	return res
}

// allowed callees inside a region that exists only when the callback is set
var reportPure = map[string]bool{
	"pkg/errors.NewError": true, "pkg/position.NewPosition": true, "internal/scanner.NewLines.GetLine": true,
	"fmt.Sprintf": true,
}

// CallbackNoninterference decides that installing or omitting the callback
// cannot change parser or lexer state: callback values are only copied into
// callback fields of fresh objects, compared with nil, or called; the code
// that runs only when the callback is (non-)nil has no effect on state.
func CallbackNoninterference(w *World) *report.RuleResult {
	res := report.NewResult("callback-noninterference")
	for _, fn := range w.Funcs {
		name := w.Name(fn)
		for _, b := range fn.Blocks {
			for _, in := range b.Instrs {
				v, ok := in.(ssa.Value)
				if !ok || !isCallbackType(v.Type()) {
					continue
				}
				if _, isClosure := v.(*ssa.MakeClosure); isClosure {
					continue // a callback being created (CLI, tests)
				}
				refs := v.Referrers()
				if refs == nil {
					continue
				}
				for _, r := range *refs {
					res.Count("uses", 1)
					key := name + "/use:" + Expr(v)
					switch x := r.(type) {
					case *ssa.DebugRef:
						res.Instances["uses"]--
						continue
					case *ssa.Store:
						if fa, ok := x.Addr.(*ssa.FieldAddr); ok && x.Val == v && isCallbackType(fa.Type().(*types.Pointer).Elem()) {
							res.OK(key+"/copy", w.InstrPos(r), name, "copied into callback field "+fieldName(fa.X.Type(), fa.Field))
						} else if _, ok := x.Addr.(*ssa.Alloc); ok {
							res.OK(key+"/local", w.InstrPos(r), name, "kept in a local")
						} else {
							res.Bad(key+"/store", w.InstrPos(r), name, "callback value stored somewhere other than a callback field")
						}
					case *ssa.BinOp:
						nilCmp := (x.Op == token.EQL || x.Op == token.NEQ) && (isNilConst(x.X) || isNilConst(x.Y))
						if !nilCmp {
							res.Bad(key+"/compare", w.InstrPos(r), name, "callback compared with something other than nil")
							continue
						}
						checkRegions(w, res, fn, x, key)
					case ssa.CallInstruction:
						com := x.Common()
						if com.Value == v {
							res.OK(key+"/call", w.InstrPos(r), name, "the call itself")
						} else {
							res.Bad(key+"/arg", w.InstrPos(r), name, "callback passed as an argument")
						}
					case *ssa.Phi, *ssa.MakeInterface, *ssa.ChangeType:
						res.Bad(key+"/flow", w.InstrPos(r), name, fmt.Sprintf("callback flows through %T; not part of the reviewed idiom", r))
					default:
						res.Bad(key+"/other", w.InstrPos(r), name, fmt.Sprintf("callback used by %T", r))
					}
				}
			}
		}
	}
	return res
}

// checkRegions: cmp is `cb ==/!= nil`; every If on cmp splits the function
// into a nil region and a non-nil region (blocks dominated by the respective
// single-predecessor successor). Both regions must be effect-free apart from
// reporting.
func checkRegions(w *World, res *report.RuleResult, fn *ssa.Function, cmp *ssa.BinOp, key string) {
	name := w.Name(fn)
	refs := cmp.Referrers()
	for _, r := range *refs {
		ifi, ok := r.(*ssa.If)
		if !ok {
			if _, ok := r.(*ssa.DebugRef); ok {
				continue
			}
			res.Bad(key+"/cond", w.InstrPos(r), name, "the result of the nil test is used as a value, not as a branch condition")
			continue
		}
		blk := ifi.Block()
		for i, succ := range blk.Succs {
			region := "nil"
			if (cmp.Op == token.NEQ) == (i == 0) {
				region = "set"
			}
			if len(succ.Preds) != 1 {
				continue // join point: code that runs in both cases
			}
			var bad []string
			var pos string
			n := 0
			for _, b := range fn.Blocks {
				if !succ.Dominates(b) {
					continue
				}
				for _, in := range b.Instrs {
					n++
					why := effectOf(in)
					if why != "" {
						bad = append(bad, why)
						if pos == "" {
							pos = w.InstrPos(in)
						}
					}
				}
			}
			k := fmt.Sprintf("%s/region-%s", key, region)
			if len(bad) == 0 {
				res.OK(k, w.InstrPos(ifi), name, fmt.Sprintf("%d instructions that run only when the callback is %s: no state change besides reporting", n, region))
			} else {
				res.Bad(k, pos, name, "code that runs only when the callback is "+region+" changes state: "+strings.Join(bad, "; "))
			}
		}
	}
}

// effectOf: "" if the instruction cannot change parser/lexer/tree state.
func effectOf(in ssa.Instruction) string {
	switch x := in.(type) {
	case *ssa.Store:
		root := ClassifyAddr(x.Addr).Root
		if root != nil && Fresh(root, map[ssa.Value]bool{}) {
			return ""
		}
		return "store to " + Expr(x.Addr)
	case *ssa.MapUpdate:
		return "map update"
	case *ssa.Send:
		return "channel send"
	case *ssa.Go, *ssa.Defer:
		return "go/defer"
	case *ssa.Panic:
		return "panic"
	case ssa.CallInstruction:
		com := x.Common()
		if b, ok := com.Value.(*ssa.Builtin); ok {
			switch b.Name() {
			case "len", "cap", "new", "make":
				return ""
			}
			return "builtin " + b.Name()
		}
		if callee := com.StaticCallee(); callee != nil {
			if reportPure[calleeName(callee)] || effectFree(callee) {
				return ""
			}
			// a callee that only fills in what it is handed (stores through a parameter) changes no state
			// when the caller hands it an object it has just made
			if idx, ok := storesOnlyThroughParams(callee); ok {
				args := com.Args
				fresh := len(args) == len(callee.Params)
				for _, i := range idx {
					if !fresh || i >= len(args) {
						fresh = false
						break
					}
					root := ClassifyAddr(args[i]).Root
					if root == nil {
						root = args[i]
					}
					if !Fresh(root, map[ssa.Value]bool{}) {
						fresh = false
					}
				}
				if fresh {
					return ""
				}
			}
			return "call of " + calleeName(callee)
		}
		if !com.IsInvoke() && isCallbackType(com.Value.Type()) {
			return ""
		}
		return "dynamic call"
	}
	return ""
}

// Origins of component path (field names) of value v, path-insensitively.
func Origins(v ssa.Value, path []string, seen map[ssa.Value]bool, out map[string]bool) {
	if seen[v] && len(path) == 0 {
		return
	}
	seen[v] = true
	suffix := ""
	if len(path) > 0 {
		suffix = "." + strings.Join(path, ".")
	}
	switch x := v.(type) {
	case *ssa.Parameter:
		out["param:"+x.Name()+suffix] = true
	case *ssa.Const:
		if x.Value == nil {
			out["zero"] = true
		} else {
			out["const"] = true
		}
	case *ssa.Field:
		Origins(x.X, append([]string{fieldName(x.X.Type(), x.Field)}, path...), seen, out)
	case *ssa.Phi:
		for _, e := range x.Edges {
			Origins(e, path, seen, out)
		}
	case *ssa.UnOp:
		if x.Op != token.MUL {
			out["expr:"+Expr(v)] = true
			return
		}
		switch a := x.X.(type) {
		case *ssa.Alloc:
			allocOrigins(a, path, seen, out)
		case *ssa.Global:
			out["global:"+globalName(a)+suffix] = true
		case *ssa.FieldAddr:
			// load of a field through a pointer
			if al, ok := a.X.(*ssa.Alloc); ok {
				allocOrigins(al, append([]string{fieldName(a.X.Type(), a.Field)}, path...), seen, out)
			} else {
				out["load:"+Expr(v)+suffix] = true
			}
		default:
			out["load:"+Expr(v)+suffix] = true
		}
	case *ssa.MakeClosure, *ssa.Function:
		out["func"] = true
	default:
		out["expr:"+Expr(v)+suffix] = true
	}
}

func allocOrigins(a *ssa.Alloc, path []string, seen map[ssa.Value]bool, out map[string]bool) {
	stores := 0
	for _, r := range *a.Referrers() {
		switch x := r.(type) {
		case *ssa.Store:
			if x.Addr == a {
				stores++
				Origins(x.Val, path, seen, out)
			}
		case *ssa.FieldAddr:
			fn := fieldName(a.Type(), x.Field)
			if len(path) > 0 && path[0] == fn {
				for _, r2 := range *x.Referrers() {
					if st, ok := r2.(*ssa.Store); ok && st.Addr == x {
						stores++
						Origins(st.Val, path[1:], seen, out)
					}
				}
			}
		}
	}
	if stores == 0 {
		out["zero"] = true
	}
}

// CallbackPlumbing: the caller's ErrorHandlerFunc reaches the lexer and the
// parser unchanged on every path.
func CallbackPlumbing(w *World) *report.RuleResult {
	res := report.NewResult("callback-plumbing")
	for _, fn := range w.Funcs {
		name := w.Name(fn)
		if strings.HasPrefix(name, "cmd/") {
			continue // commands create their own callbacks
		}
		for _, b := range fn.Blocks {
			for _, in := range b.Instrs {
				switch x := in.(type) {
				case ssa.CallInstruction:
					com := x.Common()
					callee := com.StaticCallee()
					if callee == nil || !load.InModule(fnPkg(callee)) {
						continue
					}
					for i, a := range com.Args {
						n := namedOf(a.Type())
						if n == nil || n.Obj().Name() != "Config" || load.Rel(n.Obj().Pkg()) != "pkg/conf" {
							continue
						}
						if _, isPtr := a.Type().(*types.Pointer); isPtr {
							continue
						}
						res.Count("config-args", 1)
						out := map[string]bool{}
						Origins(a, []string{"ErrorHandlerFunc"}, map[ssa.Value]bool{}, out)
						key := fmt.Sprintf("%s/arg:%s#%d", name, callee.Name(), i)
						okOrigin := len(out) > 0
						for o := range out {
							if !(strings.HasPrefix(o, "param:") && strings.HasSuffix(o, ".ErrorHandlerFunc")) && o != "func" {
								okOrigin = false
							}
						}
						if okOrigin {
							res.OK(key, w.InstrPos(in), name, "ErrorHandlerFunc of the config handed to "+callee.Name()+" comes from "+strings.Join(sortedKeysB(out), ", "))
						} else {
							res.Bad(key, w.InstrPos(in), name, "ErrorHandlerFunc of the config handed to "+callee.Name()+" may not be the caller's: origins "+strings.Join(sortedKeysB(out), ", "))
						}
					}
				case *ssa.Store:
					fa, ok := x.Addr.(*ssa.FieldAddr)
					if !ok || !isCallbackType(x.Val.Type()) || !Fresh(fa.X, map[ssa.Value]bool{}) {
						continue
					}
					res.Count("ctor-stores", 1)
					out := map[string]bool{}
					Origins(x.Val, nil, map[ssa.Value]bool{}, out)
					key := name + "/init:" + fieldName(fa.X.Type(), fa.Field)
					okOrigin := len(out) > 0
					for o := range out {
						if !(strings.HasPrefix(o, "param:") && strings.HasSuffix(o, ".ErrorHandlerFunc")) {
							okOrigin = false
						}
					}
					if okOrigin {
						res.OK(key, w.InstrPos(in), name, "initialised from "+strings.Join(sortedKeysB(out), ", "))
					} else {
						res.Bad(key, w.InstrPos(in), name, "callback field is not initialised from the configuration's ErrorHandlerFunc: origins "+strings.Join(sortedKeysB(out), ", "))
					}
				}
			}
		}
	}
	return res
}

func sortedKeysB(m map[string]bool) []string {
	var out []string
	for k := range m {
		out = append(out, k)
	}
	sort.Strings(out)
	return out
}

// ErrorForwarding: the three reporting functions build the error from the
// incoming message and the position of the offending text.
//
//	Parser.Error (php5, php7): NewError(msg, p.currentToken.Position)
//	Lexer.error:               NewError(msg, NewPosition(GetLine(ts), GetLine(te-1), ts, te))
//
// Any other call of the callback must pass NewError(<non-empty constant>, <a node's or token's Position>).
func ErrorForwarding(w *World) *report.RuleResult {
	res := report.NewResult("error-forwarding")
	want := map[string]string{
		"internal/php5.Parser.Error":  "pkg/errors.NewError(msg, p.currentToken.Position)",
		"internal/php7.Parser.Error":  "pkg/errors.NewError(msg, p.currentToken.Position)",
		"internal/scanner.Lexer.error": "pkg/errors.NewError(msg, Position{StartLine: internal/scanner.NewLines.GetLine(&lex.newLines, lex.ts), EndLine: internal/scanner.NewLines.GetLine(&lex.newLines, (lex.te-1)), StartPos: lex.ts, EndPos: lex.te})",
	}
	seen := map[string]bool{}
	for _, c := range w.callbackCalls() {
		name := w.Name(c.fn)
		if strings.HasPrefix(name, "cmd/") {
			continue
		}
		res.Count("calls", 1)
		args := c.in.Common().Args
		key := name + "/arg"
		for n := 2; seen[key]; n++ {
			key = fmt.Sprintf("%s/arg#%d", name, n)
		}
		seen[key] = true
		if len(args) != 1 {
			res.Unknown(key, w.InstrPos(c.in), name, "undecided: unexpected arity")
			continue
		}
		got := canonReport(args[0])
		if exp, ok := want[name]; ok {
			if got == exp {
				res.OK(key, w.InstrPos(c.in), name, "forwards "+got)
			} else {
				res.Bad(key, w.InstrPos(c.in), name, "reports "+got+"; expected "+exp)
			}
			continue
		}
		// a forwarding helper (its parameter is handed to the callback): check every caller's argument
		if prm, ok := args[0].(*ssa.Parameter); ok {
			idx := -1
			for i, q := range c.fn.Params {
				if q == prm {
					idx = i
				}
			}
			sites := 0
			for _, caller := range w.Funcs {
				for _, b := range caller.Blocks {
					for _, in := range b.Instrs {
						ci, ok := in.(ssa.CallInstruction)
						if !ok || ci.Common().StaticCallee() != c.fn || idx < 0 || idx >= len(ci.Common().Args) {
							continue
						}
						sites++
						res.Count("forwarded-sites", 1)
						k := fmt.Sprintf("%s/via:%s#%d", w.Name(caller), c.fn.Name(), sites)
						checkReportArg(w, res, k, w.Name(caller), in, ci.Common().Args[idx])
					}
				}
			}
			res.Check(sites > 0 && idx >= 0, key, w.InstrPos(c.in), name, fmt.Sprintf("forwards its parameter %s; %d call sites checked", prm.Name(), sites), "forwarding helper without call sites")
			continue
		}
		checkReportArg(w, res, key, name, c.in, args[0])
	}
	for name := range want {
		if !seen[name+"/arg"] {
			res.Bad(name+"/arg", "-", name, "reporting function "+name+" no longer calls the callback")
		}
	}
	return res
}

// RootOnlyOnAccept (AST): the parser's rootNode field is assigned nil in
// Parser.Parse and otherwise only inside the action of production 1 (the start
// rule) of the generated parser.
func RootOnlyOnAccept(p *load.Program, rels ...string) *report.RuleResult {
	res := report.NewResult("root-only-on-accept")
	for _, rel := range rels {
		pk := p.Pkg(rel)
		if pk == nil {
			res.Unknown(rel, rel, "", "undecided: package not found")
			continue
		}
		info := pk.TypesInfo
		n := 0
		for _, fd := range load.FuncDecls(pk) {
			fname := fd.Name.Name
			var walk func(node ast.Node, inCase string)
			walk = func(node ast.Node, inCase string) {
				ast.Inspect(node, func(nd ast.Node) bool {
					switch x := nd.(type) {
					case *ast.CaseClause:
						label := "default"
						if len(x.List) == 1 {
							if tv, ok := info.Types[x.List[0]]; ok && tv.Value != nil {
								label = tv.Value.ExactString()
							} else {
								label = types.ExprString(x.List[0])
							}
						} else if len(x.List) > 1 {
							label = "multi"
						}
						for _, s := range x.Body {
							walk(s, label)
						}
						return false
					case *ast.AssignStmt:
						for i, lhs := range x.Lhs {
							se, ok := lhs.(*ast.SelectorExpr)
							if !ok {
								continue
							}
							sel := info.Selections[se]
							if sel == nil || sel.Kind() != types.FieldVal || sel.Obj().Name() != "rootNode" {
								continue
							}
							n++
							key := fmt.Sprintf("%s/%s/assign#%d", rel, fname, n)
							rhsNil := false
							if i < len(x.Rhs) {
								if tv, ok := info.Types[x.Rhs[i]]; ok && tv.IsNil() {
									rhsNil = true
								}
							}
							switch {
							case fname == "Parse" && fd.Recv != nil && rhsNil && inCase == "" && recvName(fd) == "Parser":
								res.OK(key, p.Pos(x.Pos()), fname, "reset to nil at the start of Parse")
							case fname == "Parse" && recvName(fd) == "yyParserImpl" && inCase == "1":
								res.OK(key, p.Pos(x.Pos()), fname, "assigned in the action of production 1 (start rule)")
							default:
								res.Bad(key, p.Pos(x.Pos()), fname, fmt.Sprintf("rootNode assigned outside the start rule's action (function %s, case %q): a tree could be returned for input the grammar did not accept", fname, inCase))
							}
						}
					}
					return true
				})
			}
			walk(fd.Body, "")
		}
		res.Count("assignments", n)
		// GetRootNode returns the field
		ok := false
		for _, fd := range load.FuncDecls(pk) {
			if fd.Name.Name == "GetRootNode" && len(fd.Body.List) == 1 {
				if rs, isRet := fd.Body.List[0].(*ast.ReturnStmt); isRet && len(rs.Results) == 1 {
					if se, isSel := rs.Results[0].(*ast.SelectorExpr); isSel && se.Sel.Name == "rootNode" {
						ok = true
					}
				}
			}
		}
		res.Check(ok, rel+"/GetRootNode", rel, "GetRootNode", "returns the rootNode field", "GetRootNode does not simply return rootNode")
	}
	return res
}

func recvName(fd *ast.FuncDecl) string {
	if fd.Recv == nil || len(fd.Recv.List) != 1 {
		return ""
	}
	t := fd.Recv.List[0].Type
	if st, ok := t.(*ast.StarExpr); ok {
		t = st.X
	}
	if id, ok := t.(*ast.Ident); ok {
		return id.Name
	}
	return ""
}

// checkReportArg: a semantic error raised outside the three reporting
// functions must be errors.NewError(<non-empty constant or incoming message>, <Position of a node or token>).
func checkReportArg(w *World, res *report.RuleResult, key, name string, in ssa.Instruction, arg ssa.Value) {
	got := Expr(arg)
	call, ok := arg.(*ssa.Call)
	if !ok || call.Common().StaticCallee() == nil || calleeName(call.Common().StaticCallee()) != "pkg/errors.NewError" {
		res.Bad(key, w.InstrPos(in), name, "callback argument is not built by errors.NewError: "+got)
		return
	}
	a := call.Common().Args
	// a component that is a parameter of the enclosing function (a wrapper such as reportAt(msg, pos)) is
	// judged by what every static caller passes for it
	msgOK, posOK := true, true
	nMsg, nPos := 0, 0
	w.eachOrigin(in.Parent(), a[0], 0, func(v ssa.Value, dynamicParam bool) {
		nMsg++
		if cst, ok := v.(*ssa.Const); ok && cst.Value != nil && len(cst.Value.ExactString()) > 2 {
			return
		}
		if dynamicParam {
			return // the message handed in through an interface method (goyacc's Error(msg))
		}
		if w.constMessageTable(v) {
			return // an element of a package-level table of non-empty string constants that nothing writes
		}
		msgOK = false
	})
	w.eachOrigin(in.Parent(), a[1], 0, func(v ssa.Value, dynamicParam bool) {
		nPos++
		if ld, ok := v.(*ssa.UnOp); ok && ld.Op == token.MUL {
			if fa, ok := ld.X.(*ssa.FieldAddr); ok && fieldName(fa.X.Type(), fa.Field) == "Position" {
				return
			}
		}
		if c2, ok := v.(*ssa.Call); ok && c2.Common().StaticCallee() != nil && calleeName(c2.Common().StaticCallee()) == "pkg/position.NewPosition" {
			return
		}
		posOK = false
	})
	res.Count("report-origins", nPos) // ultimate sites that supply the reported position
	if nMsg == 0 {
		msgOK = false
	}
	if nPos == 0 {
		posOK = false
	}
	if len(got) > 160 {
		got = got[:160] + "…"
	}
	if msgOK && posOK {
		res.OK(key, w.InstrPos(in), name, "reports "+got)
	} else {
		res.Bad(key, w.InstrPos(in), name, fmt.Sprintf("reports %s: message constant/non-empty=%v, position taken from a node or token=%v", got, msgOK, posOK))
	}
}


// splitTuple splits "a; b; c" at top-level "; " (parentheses and brackets balanced).
func splitTuple(s string) []string {
	var out []string
	depth, start := 0, 0
	for i := 0; i < len(s); i++ {
		switch s[i] {
		case '(', '[':
			depth++
		case ')', ']':
			depth--
		case ';':
			if depth == 0 && i+1 < len(s) && s[i+1] == ' ' {
				out = append(out, s[start:i])
				start = i + 2
			}
		}
	}
	return append(out, s[start:])
}


// effectFree: every instruction of fn (and, transitively, of the functions it calls statically) is
// without effect in the sense of effectOf. Functions without a body, and recursion, count as effectful.
var effectFreeMemo = map[*ssa.Function]int{} // 1 in progress, 2 free, 3 not free

// storesOnlyThroughParams: every effect of fn is a store into memory reached from one of its parameters;
// the indices of those parameters.
var storesOnlyMemo = map[*ssa.Function][]int{}
var storesOnlyOK = map[*ssa.Function]int{}

func storesOnlyThroughParams(fn *ssa.Function) ([]int, bool) {
	switch storesOnlyOK[fn] {
	case 1, 3:
		return nil, false
	case 2:
		return storesOnlyMemo[fn], true
	}
	if fn == nil || len(fn.Blocks) == 0 {
		return nil, false
	}
	storesOnlyOK[fn] = 1
	set := map[int]bool{}
	ok := true
	for _, b := range fn.Blocks {
		for _, in := range b.Instrs {
			if effectOf(in) == "" {
				continue
			}
			st, isStore := in.(*ssa.Store)
			if !isStore {
				ok = false
				continue
			}
			root := ClassifyAddr(st.Addr).Root
			p, isParam := root.(*ssa.Parameter)
			if !isParam {
				ok = false
				continue
			}
			found := false
			for i, q := range fn.Params {
				if q == p {
					set[i] = true
					found = true
				}
			}
			if !found {
				ok = false
			}
		}
	}
	if !ok {
		storesOnlyOK[fn] = 3
		return nil, false
	}
	var idx []int
	for i := range set {
		idx = append(idx, i)
	}
	sort.Ints(idx)
	storesOnlyOK[fn], storesOnlyMemo[fn] = 2, idx
	return idx, true
}

func effectFree(fn *ssa.Function) bool {
	switch effectFreeMemo[fn] {
	case 1, 3:
		return false
	case 2:
		return true
	}
	if fn == nil || len(fn.Blocks) == 0 {
		return false
	}
	effectFreeMemo[fn] = 1
	ok := true
	for _, b := range fn.Blocks {
		for _, in := range b.Instrs {
			if effectOf(in) != "" {
				ok = false
			}
		}
	}
	if ok {
		effectFreeMemo[fn] = 2
	} else {
		effectFreeMemo[fn] = 3
	}
	return ok
}


// deepInstrs visits the instructions of fn and, in the context of each call, those of the unexported
// straight-line-or-not functions of the same package it calls statically (depth-limited). While a
// callee is visited, Expr renders its parameters as the caller's argument expressions.
func deepInstrs(fn *ssa.Function, visit func(in ssa.Instruction)) {
	var walk func(f *ssa.Function, depth int)
	walk = func(f *ssa.Function, depth int) {
		for _, b := range f.Blocks {
			for _, in := range b.Instrs {
				visit(in)
				c, ok := in.(*ssa.Call)
				if !ok || depth >= 3 {
					continue
				}
				callee := c.Common().StaticCallee()
				if callee == nil || callee.Pkg == nil || callee.Pkg != f.Pkg || len(callee.Blocks) == 0 || token.IsExported(callee.Name()) || callee == f {
					continue
				}
				if len(callee.Params) != len(c.Common().Args) {
					continue
				}
				env := map[*ssa.Parameter]string{}
				for i, p := range callee.Params {
					env[p] = Expr(c.Common().Args[i])
				}
				inlineEnv = append(inlineEnv, env)
				walk(callee, depth+1)
				inlineEnv = inlineEnv[:len(inlineEnv)-1]
			}
		}
	}
	walk(fn, 0)
}


// canonReport renders the argument of a callback call; a position built by position.NewPosition(a, b,
// c, d) and one built by field assignments on a fresh Position are rendered alike, as
// Position{StartLine: a, EndLine: b, StartPos: c, EndPos: d}.
func canonReport(v ssa.Value) string {
	c, ok := v.(*ssa.Call)
	if !ok {
		return Expr(v)
	}
	callee := c.Common().StaticCallee()
	if callee == nil || calleeName(callee) != "pkg/errors.NewError" || len(c.Common().Args) != 2 {
		return Expr(v)
	}
	return "pkg/errors.NewError(" + Expr(c.Common().Args[0]) + ", " + canonPosition(c.Common().Args[1]) + ")"
}

func canonPosition(v ssa.Value) string {
	names := []string{"StartLine", "EndLine", "StartPos", "EndPos"}
	render := func(vals map[string]string) string {
		var parts []string
		for _, n := range names {
			e, ok := vals[n]
			if !ok {
				e = "0"
			}
			parts = append(parts, n+": "+e)
		}
		return "Position{" + strings.Join(parts, ", ") + "}"
	}
	switch x := v.(type) {
	case *ssa.Call:
		if callee := x.Common().StaticCallee(); callee != nil && calleeName(callee) == "pkg/position.NewPosition" && len(x.Common().Args) == 4 {
			// the constructor's parameters are (StartLine, EndLine, StartPos, EndPos): check by its own stores
			vals := map[string]string{}
			ok := true
			ret := accessor(callee)
			if ret == nil || len(ret.Results) != 1 {
				ok = false
			}
			if ok {
				if al, isAlloc := ret.Results[0].(*ssa.Alloc); isAlloc {
					for f, pv := range allocFieldStores(al) {
						prm, isParam := pv.(*ssa.Parameter)
						if !isParam {
							ok = false
							continue
						}
						for i, q := range callee.Params {
							if q == prm {
								vals[f] = Expr(x.Common().Args[i])
							}
						}
					}
				} else {
					ok = false
				}
			}
			if ok && len(vals) > 0 {
				return render(vals)
			}
		}
	case *ssa.Alloc:
		if st := allocFieldStores(x); len(st) > 0 {
			vals := map[string]string{}
			for f, sv := range st {
				vals[f] = Expr(sv)
			}
			return render(vals)
		}
		// an empty position handed to one function of the package that fills it in (lex.fillPosition(pos)):
		// the fields are what that function stores through the parameter, in terms of the call's arguments
		var filler *ssa.Call
		fillers, idx := 0, -1
		for _, r := range *x.Referrers() {
			c, ok := r.(*ssa.Call)
			if !ok {
				continue
			}
			callee := c.Common().StaticCallee()
			if callee == nil || callee.Pkg == nil || x.Parent() == nil || callee.Pkg != x.Parent().Pkg || calleeName(callee) == "pkg/errors.NewError" {
				continue
			}
			for i, a := range c.Common().Args {
				if a == ssa.Value(x) && len(callee.Params) == len(c.Common().Args) {
					filler, idx = c, i
					fillers++
				}
			}
		}
		if fillers == 1 {
			callee := filler.Common().StaticCallee()
			env := map[*ssa.Parameter]string{}
			for i, p := range callee.Params {
				env[p] = Expr(filler.Common().Args[i])
			}
			vals := map[string]string{}
			ok := true
			inlineEnv = append(inlineEnv, env)
			for _, r := range *callee.Params[idx].Referrers() {
				fa, isFA := r.(*ssa.FieldAddr)
				if !isFA {
					if _, isDbg := r.(*ssa.DebugRef); !isDbg {
						ok = false
					}
					continue
				}
				f := fieldName(callee.Params[idx].Type(), fa.Field)
				for _, r2 := range *fa.Referrers() {
					if st, isSt := r2.(*ssa.Store); isSt && st.Addr == fa {
						if _, dup := vals[f]; dup {
							ok = false
						}
						vals[f] = Expr(st.Val)
					}
				}
			}
			inlineEnv = inlineEnv[:len(inlineEnv)-1]
			if ok && len(vals) > 0 {
				return render(vals)
			}
		}
	}
	return Expr(v)
}

// allocFieldStores: field → the single value stored into that field of a local/new struct (nil map if
// some field is stored twice or the struct is written as a whole).
func allocFieldStores(a *ssa.Alloc) map[string]ssa.Value {
	out := map[string]ssa.Value{}
	for _, r := range *a.Referrers() {
		switch x := r.(type) {
		case *ssa.FieldAddr:
			f := fieldName(a.Type(), x.Field)
			for _, r2 := range *x.Referrers() {
				if st, ok := r2.(*ssa.Store); ok && st.Addr == x {
					if _, dup := out[f]; dup {
						return nil
					}
					out[f] = st.Val
				}
			}
		case *ssa.Store:
			if x.Addr == a {
				return nil
			}
		}
	}
	return out
}


// eachOrigin calls f for v, or — when v is a parameter of fn — for what every static call of fn in the
// module passes in its place (followed through up to three wrappers). dynamicParam: v is a parameter
// of a function nothing calls statically (an interface method implementation).
func (w *World) eachOrigin(fn *ssa.Function, v ssa.Value, depth int, f func(v ssa.Value, dynamicParam bool)) {
	prm, ok := v.(*ssa.Parameter)
	if !ok || fn == nil {
		f(v, false)
		return
	}
	idx := -1
	for i, q := range fn.Params {
		if q == prm {
			idx = i
		}
	}
	sites := 0
	if idx >= 0 && depth < 3 {
		for _, caller := range w.Funcs {
			for _, b := range caller.Blocks {
				for _, in := range b.Instrs {
					ci, ok := in.(ssa.CallInstruction)
					if !ok || ci.Common().StaticCallee() != fn || idx >= len(ci.Common().Args) {
						continue
					}
					sites++
					w.eachOrigin(caller, ci.Common().Args[idx], depth+1, f)
				}
			}
		}
	}
	if sites == 0 {
		f(v, true)
	}
}


// constMessageTable: v is a load of an element of a package-level array or slice variable whose initialiser
// lists only non-empty string constants and that no function of the module stores into or takes apart
// (messages[kind]; that the index is in range is rule idx-safe's).
func (w *World) constMessageTable(v ssa.Value) bool {
	ld, ok := v.(*ssa.UnOp)
	if !ok || ld.Op != token.MUL {
		return false
	}
	ia, ok := ld.X.(*ssa.IndexAddr)
	if !ok {
		return false
	}
	var g *ssa.Global
	switch b := ia.X.(type) {
	case *ssa.Global:
		g = b
	case *ssa.UnOp:
		if b.Op == token.MUL {
			g, _ = b.X.(*ssa.Global)
		}
	}
	if g == nil || g.Pkg == nil {
		return false
	}
	// the only uses: element loads (and, in the package initialiser, the stores that build the table)
	for _, fn := range w.Funcs {
		for _, blk := range fn.Blocks {
			for _, in := range blk.Instrs {
				for _, op := range in.Operands(nil) {
					if *op != ssa.Value(g) {
						continue
					}
					if fn.Name() == "init" && fn.Pkg == g.Pkg {
						continue
					}
					switch x := in.(type) {
					case *ssa.IndexAddr:
						for _, r := range *x.Referrers() {
							if u, ok := r.(*ssa.UnOp); !ok || u.Op != token.MUL {
								return false
							}
						}
					case *ssa.UnOp:
						if x.Op != token.MUL {
							return false
						}
						for _, r := range *x.Referrers() {
							switch y := r.(type) {
							case *ssa.IndexAddr:
								for _, r2 := range *y.Referrers() {
									if u, ok := r2.(*ssa.UnOp); !ok || u.Op != token.MUL {
										return false
									}
								}
							case *ssa.Index, *ssa.DebugRef:
							case *ssa.Call:
								if b, ok := y.Common().Value.(*ssa.Builtin); !ok || b.Name() != "len" {
									return false
								}
							default:
								return false
							}
						}
					default:
						return false
					}
				}
			}
		}
	}
	// the initialiser, from the syntax
	for _, pk := range w.P.All {
		if pk.Types != g.Pkg.Pkg {
			continue
		}
		for _, f := range pk.Syntax {
			for _, d := range f.Decls {
				gd, ok := d.(*ast.GenDecl)
				if !ok || gd.Tok != token.VAR {
					continue
				}
				for _, sp := range gd.Specs {
					vs := sp.(*ast.ValueSpec)
					for i, nm := range vs.Names {
						if nm.Name != g.Name() || i >= len(vs.Values) {
							continue
						}
						cl, ok := vs.Values[i].(*ast.CompositeLit)
						if !ok || len(cl.Elts) == 0 {
							return false
						}
						for _, el := range cl.Elts {
							val := el
							if kv, ok := el.(*ast.KeyValueExpr); ok {
								val = kv.Value
							}
							tv := pk.TypesInfo.Types[val]
							if tv.Value == nil || tv.Value.Kind() != constant.String || constant.StringVal(tv.Value) == "" {
								return false
							}
						}
						return true
					}
				}
			}
		}
	}
	return false
}
