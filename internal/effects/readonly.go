package effects

import (
	"fmt"
	"go/types"
	"strings"

	"golang.org/x/tools/go/ssa"

	"verif/internal/load"
	"verif/internal/report"
)

// read-only sinks outside the module that may receive tree-derived values
var readOnlyExternal = map[string]bool{
	"bytes.HasPrefix": true, "bytes.HasSuffix": true, "bytes.Equal": true, "bytes.Compare": true, "bytes.Contains": true,
	"bytes.Index": true, "bytes.IndexByte": true, "bytes.Count": true, "bytes.EqualFold": true,
	"io.WriteString": true, "strings.ToLower": true, "strconv.Quote": true, "strconv.Itoa": true,
	"strings.Repeat": true, "strings.Join": true, "strings.HasPrefix": true, "strings.HasSuffix": true,
	"strings.EqualFold": true, "strings.Compare": true, "strings.Contains": true, "strings.Split": true,
	"fmt.Sprintf": true, "strings.TrimLeft": true, "strings.TrimPrefix": true, "strings.Trim": true,
	// the command writes what it printed back to the file: the data argument is only read
	"io/ioutil.WriteFile": true, "os.WriteFile": true,
}

// readOnlyExt: a function outside the module that only reads the slices and
// strings it is given. Besides the reviewed table above: every package-level
// function of strings, bytes, strconv, unicode, unicode/utf8 and fmt, and the
// Write… methods of strings.Builder and bytes.Buffer (they copy into their own
// buffer), except those that by their documented contract write into an
// argument or keep it as their own storage (Append…, Encode…, Put…, Read…,
// Copy…, Fill…, sorting, bytes.NewBuffer).
func readOnlyExt(full string, callee *ssa.Function) bool {
	if readOnlyExternal[full] {
		return true
	}
	if callee == nil || callee.Pkg == nil {
		return false
	}
	name := callee.Name()
	for _, pre := range []string{"Append", "Encode", "Put", "Read", "Copy", "Fill", "Sort", "Stable", "Swap", "Reverse", "NewBuffer", "Grow", "Truncate", "Reset", "Unread"} {
		if strings.HasPrefix(name, pre) {
			return false
		}
	}
	path := callee.Pkg.Pkg.Path()
	recv := callee.Signature.Recv()
	if recv == nil {
		switch path {
		case "strings", "bytes", "strconv", "unicode", "unicode/utf8", "fmt", "errors":
			return true
		}
		return false
	}
	rt := strings.TrimPrefix(types.TypeString(recv.Type(), nil), "*")
	switch rt {
	case "strings.Builder", "bytes.Buffer":
		return strings.HasPrefix(name, "Write") || name == "Len" || name == "String" || name == "Bytes" || name == "Cap"
	}
	return false
}

var readOnlyInvoke = map[string]bool{
	"io.Writer.Write":            true, // io.Writer's contract: Write must not modify the slice data
	"ast.Vertex.GetPosition":     true,
	"ast.Vertex.Accept":          true, // dispatches to the visitor method of the node's kind (rule accept-dispatch)
	"error.Error":                true,
	"token.ID.String":            true,
}

// TreeReadonly decides rule tree-readonly (C13) for the given observer packages.
func TreeReadonly(w *World, observers ...string) *report.RuleResult {
	res := report.NewResult("tree-readonly")
	start := w.InPkgs(observers...)
	isAccept := func(fn *ssa.Function) bool {
		// Accept/GetPosition of tree kinds are modelled by accept-dispatch
		return false
	}
	fns := w.StaticClosure(start, isAccept)
	res.Count("functions", len(fns))
	for _, fn := range fns {
		name := w.Name(fn)
		res.Units = append(res.Units, name)
		found := map[string]string{} // key -> detail/pos
		pos := map[string]string{}
		flag := func(kind, what string, in ssa.Instruction, detail string) {
			k := name + "/" + kind + ":" + what
			if _, ok := found[k]; !ok {
				found[k] = detail
				pos[k] = w.InstrPos(in)
			}
		}
		instrs := 0
		for _, b := range fn.Blocks {
			for _, in := range b.Instrs {
				instrs++
				switch x := in.(type) {
				case *ssa.Store:
					ai := ClassifyAddr(x.Addr)
					if ai.Tree {
						flag("store", ai.What, in, "writes "+ai.What+" of a tree value")
					} else if g, ok := ai.Root.(*ssa.Global); ok && load.InModule(g.Pkg.Pkg) {
						_ = g // global writes are C11's concern
					} else if ai.Root != nil {
						// store through a pointer parameter to tree-capable memory (e.g. *[]ast.Vertex)
						if p, ok := ai.Root.(*ssa.Parameter); ok {
							if pt, ok := p.Type().Underlying().(*types.Pointer); ok && (TreeCapable(pt.Elem()) || IsTreeStruct(pt.Elem())) {
								flag("store", "*"+p.Name(), in, "writes through pointer parameter "+p.Name()+" of tree type")
							}
						}
					}
				case *ssa.MapUpdate:
					// maps are never part of the tree
				case ssa.CallInstruction:
					com := x.Common()
					if bi, ok := com.Value.(*ssa.Builtin); ok {
						switch bi.Name() {
						case "append":
							if len(com.Args) > 0 && Treeish(com.Args[0]) {
								flag("append", types.TypeString(com.Args[0].Type(), shortQual), in, "appends to a slice that may share its backing array with the tree (append writes in place when capacity allows)")
							}
						case "copy":
							if len(com.Args) > 0 && Treeish(com.Args[0]) {
								flag("copy", types.TypeString(com.Args[0].Type(), shortQual), in, "copies into a slice that may be tree storage")
							}
						case "clear":
							if len(com.Args) > 0 && Treeish(com.Args[0]) {
								flag("clear", types.TypeString(com.Args[0].Type(), shortQual), in, "clears tree storage")
							}
						}
						continue
					}
					hasTree := false
					for _, a := range com.Args {
						if mi, ok := a.(*ssa.MakeInterface); ok {
							a = mi.X
						}
						if Treeish(a) {
							hasTree = true
						}
					}
					if com.IsInvoke() {
						if com.Value != nil && TreeCapable(com.Value.Type()) {
							// method call on a Vertex
						}
						recvT := com.Value.Type()
						mname := types.TypeString(recvT, shortQual) + "." + com.Method.Name()
						if readOnlyInvoke[mname] {
							continue
						}
						// visitor methods invoked on a visitor value: only Accept does that (pkg/ast), fine
						if n, ok := recvT.(*types.Named); ok && n.Obj().Name() == "Visitor" && load.Rel(n.Obj().Pkg()) == "pkg/ast" {
							continue
						}
						if hasTree {
							flag("invoke", mname, in, "passes a tree-derived value to interface method "+mname+", which is not in the reviewed read-only set")
						}
						continue
					}
					callee := com.StaticCallee()
					if callee == nil {
						if hasTree {
							flag("dyncall", "func value", in, "passes a tree-derived value to a function value")
						}
						continue
					}
					if cp := fnPkg(callee); cp != nil && load.InModule(cp) {
						continue // analysed as part of the closure
					}
					if hasTree {
						full := callee.String()
						if callee.Pkg != nil {
							full = callee.Pkg.Pkg.Path() + "." + callee.Name()
							if recv := callee.Signature.Recv(); recv != nil {
								full = strings.TrimPrefix(types.TypeString(recv.Type(), nil), "*") + "." + callee.Name()
							}
						}
						if !readOnlyExt(full, callee) {
							flag("extcall", full, in, "passes a tree-derived value to "+full+", which is not in the reviewed read-only set")
						}
					}
				}
			}
		}
		if len(found) == 0 {
			res.OK(name, w.Pos(fn.Pos()), name, fmt.Sprintf("%d instructions: no store to a field of pkg/ast, pkg/token, pkg/position values, no index-store/append/copy into tree-derived slices, tree values passed outside the module only to read-only sinks", instrs))
			continue
		}
		for k, d := range found {
			res.Bad(k, pos[k], name, d)
		}
	}
	return res
}
