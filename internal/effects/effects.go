// Package effects implements engine D: store/effect analyses on go/ssa for
// the whole module, generated code included.
package effects

import (
	"fmt"
	"go/token"
	"go/types"
	"sort"
	"strings"

	"golang.org/x/tools/go/ssa"
	"golang.org/x/tools/go/ssa/ssautil"

	"verif/internal/load"
)

type World struct {
	P     *load.Program
	Funcs []*ssa.Function // every function of the module (incl. anonymous), sorted
	byPkg map[string][]*ssa.Function
}

func NewWorld(p *load.Program) (*World, error) {
	if err := p.BuildSSA(); err != nil {
		return nil, err
	}
	w := &World{P: p, byPkg: map[string][]*ssa.Function{}}
	for fn := range ssautil.AllFunctions(p.SSA) {
		pkg := fnPkg(fn)
		if pkg == nil || !load.InModule(pkg) {
			continue
		}
		if fn.Blocks == nil {
			continue
		}
		if fn.Synthetic != "" && !strings.HasPrefix(fn.Synthetic, "package initializer") {
			continue // wrappers, bound-method thunks: they only forward
		}
		w.Funcs = append(w.Funcs, fn)
	}
	sort.Slice(w.Funcs, func(i, j int) bool { return w.Name(w.Funcs[i]) < w.Name(w.Funcs[j]) })
	for _, fn := range w.Funcs {
		rel := load.Rel(fnPkg(fn))
		w.byPkg[rel] = append(w.byPkg[rel], fn)
	}
	return w, nil
}

func fnPkg(fn *ssa.Function) *types.Package {
	for f := fn; f != nil; f = f.Parent() {
		if f.Pkg != nil {
			return f.Pkg.Pkg
		}
		if f.Object() != nil && f.Object().Pkg() != nil {
			return f.Object().Pkg()
		}
	}
	return nil
}

// Name is a stable, line-free name: pkgrel.(Recv).Func[$n]
func (w *World) Name(fn *ssa.Function) string {
	rel := load.Rel(fnPkg(fn))
	n := fn.Name()
	if fn.Parent() != nil {
		return w.Name(fn.Parent()) + "$" + strings.TrimPrefix(n, fn.Parent().Name()+"$")
	}
	if recv := fn.Signature.Recv(); recv != nil {
		t := recv.Type()
		if p, ok := t.(*types.Pointer); ok {
			t = p.Elem()
		}
		if nm, ok := t.(*types.Named); ok {
			return rel + "." + nm.Obj().Name() + "." + n
		}
	}
	return rel + "." + n
}

func (w *World) InPkgs(rels ...string) []*ssa.Function {
	var out []*ssa.Function
	for _, r := range rels {
		out = append(out, w.byPkg[r]...)
	}
	return out
}

func (w *World) Pos(pos token.Pos) string { return w.P.Pos(pos) }

// InstrPos finds a usable position for an instruction.
func (w *World) InstrPos(in ssa.Instruction) string {
	if in.Pos().IsValid() {
		return w.Pos(in.Pos())
	}
	if v, ok := in.(ssa.Value); ok {
		for _, r := range *v.Referrers() {
			if r.Pos().IsValid() {
				return w.Pos(r.Pos())
			}
		}
	}
	if in.Parent() != nil {
		return w.Pos(in.Parent().Pos())
	}
	return "-"
}

// StaticClosure returns start plus every module function reachable through
// static calls (and function values created in them), excluding callees for
// which skip returns true.
func (w *World) StaticClosure(start []*ssa.Function, skip func(*ssa.Function) bool) []*ssa.Function {
	seen := map[*ssa.Function]bool{}
	var out []*ssa.Function
	var visit func(fn *ssa.Function)
	visit = func(fn *ssa.Function) {
		if fn == nil || seen[fn] || fn.Blocks == nil {
			return
		}
		pkg := fnPkg(fn)
		if pkg == nil || !load.InModule(pkg) {
			return
		}
		if skip != nil && skip(fn) {
			return
		}
		seen[fn] = true
		out = append(out, fn)
		for _, b := range fn.Blocks {
			for _, in := range b.Instrs {
				if c, ok := in.(ssa.CallInstruction); ok {
					if callee := c.Common().StaticCallee(); callee != nil {
						visit(callee)
					}
				}
				for _, op := range in.Operands(nil) {
					if op != nil && *op != nil {
						if f, ok := (*op).(*ssa.Function); ok {
							visit(f)
						}
						if mc, ok := (*op).(*ssa.MakeClosure); ok {
							if f, ok := mc.Fn.(*ssa.Function); ok {
								visit(f)
							}
						}
					}
				}
			}
		}
	}
	for _, fn := range start {
		visit(fn)
	}
	sort.Slice(out, func(i, j int) bool { return w.Name(out[i]) < w.Name(out[j]) })
	return out
}

// ---- type predicates -----------------------------------------------------

var treePkgs = map[string]bool{"pkg/ast": true, "pkg/token": true, "pkg/position": true}

// IsTreeStruct: named struct type declared in pkg/ast, pkg/token, pkg/position.
func IsTreeStruct(t types.Type) bool {
	n, ok := t.(*types.Named)
	if !ok {
		return false
	}
	if _, ok := n.Underlying().(*types.Struct); !ok {
		return false
	}
	return n.Obj().Pkg() != nil && treePkgs[load.Rel(n.Obj().Pkg())] && !strings.HasSuffix(n.Obj().Name(), "Pool")
}

// TreeCapable: values of this type can alias tree storage.
func TreeCapable(t types.Type) bool {
	switch u := t.(type) {
	case *types.Pointer:
		return IsTreeStruct(u.Elem()) || TreeCapable(u.Elem())
	case *types.Slice:
		if b, ok := u.Elem().(*types.Basic); ok {
			return b.Kind() == types.Byte
		}
		return TreeCapable(u.Elem())
	case *types.Array:
		return TreeCapable(u.Elem())
	case *types.Named:
		if IsTreeStruct(u) {
			return false // a struct value is a copy
		}
		if _, ok := u.Underlying().(*types.Interface); ok {
			return u.Obj().Name() == "Vertex" && load.Rel(u.Obj().Pkg()) == "pkg/ast"
		}
		return TreeCapable(u.Underlying())
	}
	return false
}

// Fresh: v is storage created in this function (or nil / constant).
func Fresh(v ssa.Value, seen map[ssa.Value]bool) bool {
	v = outerOf(v) // a struct embedded in fresh storage is part of that storage
	if seen[v] {
		return true
	}
	seen[v] = true
	switch x := v.(type) {
	case *ssa.Alloc, *ssa.MakeSlice, *ssa.Const, *ssa.MakeInterface:
		if mi, ok := x.(*ssa.MakeInterface); ok {
			return Fresh(mi.X, seen)
		}
		return true
	case *ssa.Convert:
		// string -> []byte copies
		if b, ok := x.X.Type().Underlying().(*types.Basic); ok && b.Info()&types.IsString != 0 {
			return true
		}
		return Fresh(x.X, seen)
	case *ssa.ChangeType:
		return Fresh(x.X, seen)
	case *ssa.Slice:
		return Fresh(x.X, seen)
	case *ssa.Phi:
		for _, e := range x.Edges {
			if !Fresh(e, seen) {
				return false
			}
		}
		return true
	case *ssa.Call:
		if b, ok := x.Call.Value.(*ssa.Builtin); ok && b.Name() == "append" {
			return Fresh(x.Call.Args[0], seen)
		}
		if callee := x.Call.StaticCallee(); callee != nil && callee.Pkg != nil {
			switch callee.Pkg.Pkg.Path() + "." + callee.Name() {
			case "bytes.Repeat", "bytes.Join", "bytes.ToLower", "bytes.ToUpper", "strconv.AppendInt":
				return true
			}
		}
		return false
	case *ssa.UnOp:
		if x.Op == token.MUL {
			// load from a local variable: fresh if everything stored in it is fresh
			if a, ok := x.X.(*ssa.Alloc); ok {
				for _, r := range *a.Referrers() {
					if st, ok := r.(*ssa.Store); ok && st.Addr == a {
						if !Fresh(st.Val, seen) {
							return false
						}
					} else if _, ok := r.(*ssa.UnOp); ok {
					} else if _, ok := r.(*ssa.DebugRef); ok {
					} else {
						return false // address escapes
					}
				}
				return true
			}
		}
		return false
	}
	return false
}

// AddrRoot walks FieldAddr/IndexAddr chains to the base pointer and reports
// the first tree-struct field or treeish slice on the way.
type AddrInfo struct {
	Tree   bool   // writes storage of a tree value
	What   string // e.g. "token.Token.Value" or "element of []ast.Vertex"
	Root   ssa.Value
}

func Treeish(v ssa.Value) bool {
	return TreeCapable(v.Type()) && !Fresh(v, map[ssa.Value]bool{})
}

func ClassifyAddr(addr ssa.Value) AddrInfo {
	cur := addr
	for depth := 0; depth < 50; depth++ {
		switch a := cur.(type) {
		case *ssa.FieldAddr:
			pt, _ := a.X.Type().Underlying().(*types.Pointer)
			if pt != nil && IsTreeStruct(pt.Elem()) {
				if !Fresh(a.X, map[ssa.Value]bool{}) {
					st := pt.Elem().Underlying().(*types.Struct)
					n := pt.Elem().(*types.Named)
					return AddrInfo{Tree: true, What: fmt.Sprintf("%s.%s.%s", n.Obj().Pkg().Name(), n.Obj().Name(), st.Field(a.Field).Name()), Root: a.X}
				}
				return AddrInfo{Root: a.X}
			}
			cur = a.X
		case *ssa.IndexAddr:
			if _, isSlice := a.X.Type().Underlying().(*types.Slice); isSlice {
				if Treeish(a.X) {
					return AddrInfo{Tree: true, What: "element of " + types.TypeString(a.X.Type(), shortQual), Root: a.X}
				}
				return AddrInfo{Root: a.X}
			}
			cur = a.X // pointer to array
		default:
			return AddrInfo{Root: cur}
		}
	}
	return AddrInfo{Root: cur}
}

func shortQual(p *types.Package) string { return p.Name() }
