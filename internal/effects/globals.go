package effects

import (
	"fmt"
	"go/token"
	"go/types"
	"sort"
	"strings"

	"golang.org/x/tools/go/ssa"

	"verif/internal/load"
	"verif/internal/report"
)

// LibraryPkgs: every package of the module except commands.
func (w *World) LibraryPkgs() []string {
	var out []string
	for _, pk := range w.P.All {
		rel := load.Rel(pk.Types)
		if strings.HasPrefix(rel, "cmd/") || pk.Name == "main" {
			continue
		}
		out = append(out, rel)
	}
	sort.Strings(out)
	return out
}

func isInit(fn *ssa.Function) bool {
	return fn.Name() == "init" || strings.HasPrefix(fn.Name(), "init#") || strings.HasPrefix(fn.Synthetic, "package initializer")
}

func refType(t types.Type) bool {
	switch u := t.Underlying().(type) {
	case *types.Pointer, *types.Slice, *types.Map, *types.Chan, *types.Signature, *types.Interface:
		return true
	case *types.Struct:
		for i := 0; i < u.NumFields(); i++ {
			if refType(u.Field(i).Type()) {
				return true
			}
		}
	case *types.Array:
		return refType(u.Elem())
	}
	return false
}

func globalName(g *ssa.Global) string {
	if g.Pkg == nil {
		return g.Name()
	}
	if load.InModule(g.Pkg.Pkg) {
		return load.Rel(g.Pkg.Pkg) + "." + g.Name()
	}
	return g.Pkg.Pkg.Path() + "." + g.Name()
}

// readOnlyUse decides whether value v (derived from a global: its address, or
// a reference loaded from it) is only read by its referrers. why explains
// the first use that is not a read.
func readOnlyUse(v ssa.Value, seen map[ssa.Value]bool) (bool, ssa.Instruction, string) {
	if seen[v] {
		return true, nil, ""
	}
	seen[v] = true
	refs := v.Referrers()
	if refs == nil {
		return true, nil, ""
	}
	for _, r := range *refs {
		switch x := r.(type) {
		case *ssa.DebugRef:
		case *ssa.UnOp:
			if x.Op == token.MUL && x.X == v {
				// load through the address: the loaded value, if a reference, must be read-only too
				if refType(x.Type()) {
					if ok, in, why := readOnlyUse(x, seen); !ok {
						return false, in, why
					}
				}
			}
		case *ssa.Store:
			if x.Addr == v {
				if al, ok := v.(*ssa.Alloc); ok && !al.Heap {
					continue // a local copy is assigned: not shared state
				}
				return false, x, "is assigned"
			}
			// a copy into a local that does not escape (a value receiver or parameter spilled to the stack): the copy is
			// judged like the original
			if al, ok := x.Addr.(*ssa.Alloc); ok && !al.Heap && x.Val == v {
				if ok, in, why := readOnlyUse(al, seen); !ok {
					return false, in, why
				}
				continue
			}
			return false, x, "is stored into another object (the reference escapes)"
		case *ssa.FieldAddr:
			if ok, in, why := readOnlyUse(x, seen); !ok {
				return false, in, why
			}
		case *ssa.IndexAddr:
			if x.X == v {
				if ok, in, why := readOnlyUse(x, seen); !ok {
					return false, in, why
				}
			}
		case *ssa.Index, *ssa.Field:
			if val := r.(ssa.Value); refType(val.Type()) {
				if ok, in, why := readOnlyUse(val, seen); !ok {
					return false, in, why
				}
			}
		case *ssa.Lookup:
			if val := r.(ssa.Value); x.X == v && refType(val.Type()) {
				if ok, in, why := readOnlyUse(val, seen); !ok {
					return false, in, why
				}
			}
		case *ssa.Slice:
			if ok, in, why := readOnlyUse(x, seen); !ok {
				return false, in, why
			}
		case *ssa.Range:
			// iteration only reads
		case *ssa.BinOp:
			// comparison
		case *ssa.MapUpdate:
			if x.Map == v {
				return false, x, "map is updated"
			}
			return false, x, "is stored into a map (the reference escapes)"
		case *ssa.Phi, *ssa.ChangeType, *ssa.Convert, *ssa.MakeInterface, *ssa.ChangeInterface, *ssa.TypeAssert, *ssa.Extract:
			if ok, in, why := readOnlyUse(r.(ssa.Value), seen); !ok {
				return false, in, why
			}
		case *ssa.If:
		case ssa.CallInstruction:
			com := x.Common()
			if b, ok := com.Value.(*ssa.Builtin); ok {
				switch b.Name() {
				case "len", "cap", "print", "println":
					continue
				case "append":
					if len(com.Args) > 0 && com.Args[0] == v {
						return false, x, "is appended to (writes in place when capacity allows)"
					}
					// appended as elements: copied out of it when spread (s...), else escapes
					if com.Signature() != nil && len(com.Args) == 2 && com.Args[1] == v {
						continue
					}
				case "copy":
					if len(com.Args) > 0 && com.Args[0] == v {
						return false, x, "is the destination of copy"
					}
					continue
				}
				return false, x, "is passed to builtin " + b.Name()
			}
			if callee := com.StaticCallee(); callee != nil {
				full := calleeName(callee)
				if pureCallee[full] {
					continue
				}
				// callee in the module: its parameter must be read-only as well
				if load.InModule(fnPkg(callee)) && callee.Blocks != nil {
					okAll := true
					var in2 ssa.Instruction
					var why2 string
					for i, a := range com.Args {
						if a != v {
							continue
						}
						if i < len(callee.Params) {
							if ok, in, why := readOnlyUse(callee.Params[i], seen); !ok {
								okAll, in2, why2 = false, in, "in callee "+callee.Name()+": "+why
							}
						}
					}
					if com.Value == v {
						okAll, in2, why2 = false, x, "is called"
					}
					if okAll {
						continue
					}
					return false, in2, why2
				}
				return false, x, "is passed to " + full
			}
			if com.IsInvoke() {
				m := types.TypeString(com.Value.Type(), shortQual) + "." + com.Method.Name()
				if com.Value == v && (m == "error.Error") {
					continue
				}
				// io.Writer.Write must not modify the slice it is given, even temporarily (its documented contract, the
				// stated assumption of C13): a package-level byte slice handed to it is only read
				if m == "io.Writer.Write" && com.Value != v && isByteSlice(v.Type()) {
					continue
				}
				return false, x, "is passed to interface method " + m
			}
			// a function value read from the variable is called: the call reads the table; a function literal written
			// in a package-level initialiser can only capture package-level variables, whose uses are classified here too
			if _, isFunc := com.Value.Type().Underlying().(*types.Signature); isFunc && com.Value == v {
				argIsV := false
				for _, a := range com.Args {
					if a == v {
						argIsV = true
					}
				}
				if !argIsV {
					continue
				}
			}
			return false, x, "is passed to a function value"
		case *ssa.Return:
			return false, x, "is returned (the reference escapes to the caller)"
		default:
			return false, r, fmt.Sprintf("is used by %T", r)
		}
	}
	return true, nil, ""
}

var pureCallee = map[string]bool{
	"fmt.Sprintf": true, "fmt.Sprint": true, "strconv.Itoa": true, "errors.Is": true,
	"bytes.Equal": true, "bytes.HasPrefix": true, "bytes.HasSuffix": true, "strings.ToLower": true,
	"fmt.Printf": true, "fmt.Println": true,
	// library functions that only read the slices and strings they are given (their documented behaviour)
	"sort.SearchStrings": true, "sort.SearchInts": true, "sort.SearchFloat64s": true,
	"sort.StringsAreSorted": true, "sort.IntsAreSorted": true,
	"bytes.Index": true, "bytes.IndexByte": true, "bytes.IndexAny": true, "bytes.LastIndex": true, "bytes.LastIndexByte": true,
	"bytes.Contains": true, "bytes.ContainsAny": true, "bytes.Compare": true, "bytes.EqualFold": true, "bytes.Count": true,
	"strings.Join": true, "strings.Index": true, "strings.Contains": true, "strings.HasPrefix": true, "strings.HasSuffix": true,
	"strings.EqualFold": true, "strings.ToUpper": true, "strings.IndexByte": true, "strings.IndexAny": true, "strings.ContainsAny": true,
	"strings.ContainsRune": true, "strings.Repeat": true,
}

func calleeName(callee *ssa.Function) string {
	if callee.Pkg == nil {
		if callee.Object() != nil && callee.Object().Pkg() != nil {
			return callee.Object().Pkg().Path() + "." + callee.Name()
		}
		return callee.String()
	}
	full := callee.Pkg.Pkg.Path() + "." + callee.Name()
	if recv := callee.Signature.Recv(); recv != nil {
		full = strings.TrimPrefix(types.TypeString(recv.Type(), nil), "*") + "." + callee.Name()
	}
	if load.InModule(callee.Pkg.Pkg) {
		full = strings.TrimPrefix(strings.TrimPrefix(full, load.ModPath), "/")
	}
	return full
}

// ImmutableEscapes lists package-level references that may escape into
// per-parse state because their referent is immutable; the immutability of
// the referent's type is decided by ImmutableTypes below.
var immutableEscapeTypes = map[string]string{
	"pkg/version.Version": "version constants (5.0, 5.6, 7.0, 7.4): every store to a Version field must hit a fresh allocation (rule immutable-version)",
	"errors.errorString":  "sentinel error values are never written (unexported type of package errors)",
}

func escapeAllowed(g *ssa.Global) (string, bool) {
	t := g.Type().(*types.Pointer).Elem()
	if p, ok := t.(*types.Pointer); ok {
		if n, ok := p.Elem().(*types.Named); ok && n.Obj().Pkg() != nil {
			key := load.Rel(n.Obj().Pkg()) + "." + n.Obj().Name()
			if !load.InModule(n.Obj().Pkg()) {
				key = n.Obj().Pkg().Path() + "." + n.Obj().Name()
			}
			if why, ok := immutableEscapeTypes[key]; ok {
				return why, true
			}
		}
	}
	if n, ok := t.(*types.Named); ok && n.Obj().Name() == "error" && n.Obj().Pkg() == nil {
		return "error sentinel", true
	}
	return "", false
}

// NoGlobalWrites decides rules no-global-writes / fresh-state for library
// code: every use of every package-level variable in every non-init function
// of the given packages is classified; anything but a read is a violation.
func NoGlobalWrites(w *World, pkgs ...string) *report.RuleResult {
	res := report.NewResult("no-global-writes")
	fns := w.InPkgs(pkgs...)
	type useKey struct{ fn, g string }
	uses := map[useKey][]ssa.Instruction{}
	globals := map[string]*ssa.Global{}
	nfn := 0
	for _, fn := range fns {
		if isInit(fn) {
			continue
		}
		nfn++
		for _, b := range fn.Blocks {
			for _, in := range b.Instrs {
				for _, op := range in.Operands(nil) {
					if op == nil || *op == nil {
						continue
					}
					if g, ok := (*op).(*ssa.Global); ok {
						k := useKey{w.Name(fn), globalName(g)}
						uses[k] = append(uses[k], in)
						globals[globalName(g)] = g
					}
				}
			}
		}
	}
	res.Count("functions", nfn)
	res.Count("globals", len(globals))
	var keys []useKey
	for k := range uses {
		keys = append(keys, k)
	}
	sort.Slice(keys, func(i, j int) bool {
		if keys[i].fn != keys[j].fn {
			return keys[i].fn < keys[j].fn
		}
		return keys[i].g < keys[j].g
	})
	for _, k := range keys {
		g := globals[k.g]
		res.Count("uses", 1)
		key := k.fn + "/" + k.g
		ok, in, why := readOnlyUse(g, map[ssa.Value]bool{})
		_ = in
		// readOnlyUse on the global looks at ALL referrers in the program (incl. init
		// and other packages), so restrict the verdict to this function's instructions.
		bad := ""
		var badIn ssa.Instruction
		for _, use := range uses[k] {
			o, i2, w2 := instrReadOnly(g, use)
			if !o {
				bad, badIn = w2, i2
				break
			}
		}
		_ = ok
		_ = why
		if bad == "" {
			res.OK(key, w.InstrPos(uses[k][0]), k.fn, "package-level variable "+k.g+" is only read here")
			continue
		}
		if strings.HasPrefix(bad, "ESCAPE:") {
			if reason, allowed := escapeAllowed(g); allowed {
				res.OK(key, w.InstrPos(badIn), k.fn, "reference held by "+k.g+" escapes into per-call state; allowed because the referent is immutable: "+reason)
				res.Count("immutable-escapes", 1)
				continue
			}
			bad = strings.TrimPrefix(bad, "ESCAPE:")
		}
		res.Bad(key, w.InstrPos(badIn), k.fn, "package-level variable "+k.g+" "+bad+": state shared between concurrent calls")
	}
	return res
}

// instrReadOnly classifies one instruction that has global g as an operand.
func instrReadOnly(g *ssa.Global, in ssa.Instruction) (bool, ssa.Instruction, string) {
	switch x := in.(type) {
	case *ssa.UnOp:
		if x.Op == token.MUL {
			if !refType(x.Type()) {
				return true, nil, ""
			}
			ok, i2, why := readOnlyUse(x, map[ssa.Value]bool{})
			if !ok {
				if strings.Contains(why, "escapes") || strings.HasPrefix(why, "is passed to") || strings.HasPrefix(why, "in callee") || strings.HasPrefix(why, "is returned") {
					return false, i2, "ESCAPE:" + "holds a reference that " + why
				}
				return false, i2, "holds a reference that " + why
			}
			return true, nil, ""
		}
	case *ssa.Store:
		if x.Addr == g {
			return false, x, "is assigned"
		}
		return false, x, "has its address stored"
	case *ssa.FieldAddr, *ssa.IndexAddr:
		ok, i2, why := readOnlyUse(in.(ssa.Value), map[ssa.Value]bool{})
		if !ok {
			return false, i2, "(a part of it) " + why
		}
		return true, nil, ""
	case *ssa.DebugRef:
		return true, nil, ""
	}
	// any other use passes the variable's address around
	if c, ok := in.(ssa.CallInstruction); ok {
		com := c.Common()
		if callee := com.StaticCallee(); callee != nil {
			return false, in, "has its address passed to " + calleeName(callee)
		}
	}
	return false, in, fmt.Sprintf("has its address used by %T", in)
}

func namedOf(t types.Type) *types.Named {
	if p, ok := t.(*types.Pointer); ok {
		t = p.Elem()
	}
	n, _ := t.(*types.Named)
	return n
}

// ImmutableTypes decides rule immutable-version: every Store to a field of the
// named struct types, anywhere in the module, hits an object allocated in the
// same function (so package-level constants of these types cannot change).
func ImmutableTypes(w *World, typeKeys ...string) *report.RuleResult {
	res := report.NewResult("immutable-shared")
	want := map[string]bool{}
	for _, k := range typeKeys {
		want[k] = true
	}
	n := 0
	for _, fn := range w.Funcs {
		name := w.Name(fn)
		for _, b := range fn.Blocks {
			for _, in := range b.Instrs {
				st, ok := in.(*ssa.Store)
				if !ok {
					continue
				}
				fa, ok := st.Addr.(*ssa.FieldAddr)
				if !ok {
					continue
				}
				nt := namedOf(fa.X.Type())
				if nt == nil || nt.Obj().Pkg() == nil || !want[load.Rel(nt.Obj().Pkg())+"."+nt.Obj().Name()] {
					continue
				}
				n++
				fname := nt.Underlying().(*types.Struct).Field(fa.Field).Name()
				key := name + "/" + nt.Obj().Name() + "." + fname
				if Fresh(fa.X, map[ssa.Value]bool{}) {
					res.OK(key, w.InstrPos(in), name, "store into an object allocated in this function")
				} else {
					res.Bad(key, w.InstrPos(in), name, "writes field "+fname+" of a "+nt.Obj().Name()+" that is not allocated here; package-level constants of this type are shared between concurrent parses")
				}
			}
		}
	}
	res.Count("stores", n)
	return res
}

// NoNondeterminism: library packages contain no map iteration, select, go,
// and import none of the nondeterministic / unsafe packages.
func NoNondeterminism(w *World, pkgs ...string) *report.RuleResult {
	res := report.NewResult("no-nondeterminism")
	banned := map[string]string{"time": "wall clock", "math/rand": "random numbers", "math/rand/v2": "random numbers", "unsafe": "unchecked memory access",
		"reflect": "reflection can write through any pointer", "sync": "shared state", "sync/atomic": "shared state", "runtime": "scheduler / GC state", "os": "process state", "crypto/rand": "random numbers", "context": "cancellation"}
	for _, rel := range pkgs {
		pk := w.P.Pkg(rel)
		if pk == nil {
			continue
		}
		res.Count("packages", 1)
		var bad []string
		for path := range pk.Imports {
			if why, ok := banned[path]; ok {
				bad = append(bad, path+" ("+why+")")
			}
		}
		sort.Strings(bad)
		if len(bad) > 0 {
			res.Bad(rel+"/imports", rel, rel, "imports "+strings.Join(bad, ", "))
		} else {
			res.OK(rel+"/imports", rel, rel, fmt.Sprintf("%d imports, none of time, math/rand, unsafe, reflect, sync, runtime, os", len(pk.Imports)))
		}
	}
	for _, fn := range w.InPkgs(pkgs...) {
		name := w.Name(fn)
		res.Count("functions", 1)
		var found []string
		var pos string
		for _, b := range fn.Blocks {
			for _, in := range b.Instrs {
				var what string
				switch x := in.(type) {
				case *ssa.Range:
					if _, ok := x.X.Type().Underlying().(*types.Map); ok {
						what = "iterates over a map (order differs from run to run)"
					}
				case *ssa.Select:
					what = "select statement"
				case *ssa.Go:
					what = "starts a goroutine"
				case ssa.CallInstruction:
					com := x.Common()
					if callee := com.StaticCallee(); callee != nil && callee.Pkg != nil && callee.Pkg.Pkg.Path() == "fmt" {
						for _, a := range com.Args {
							if c, ok := a.(*ssa.Const); ok && c.Value != nil && strings.Contains(c.Value.ExactString(), "%p") {
								what = "formats a pointer value"
							}
						}
					}
				}
				if what != "" {
					found = append(found, what)
					if pos == "" {
						pos = w.InstrPos(in)
					}
				}
			}
		}
		if len(found) == 0 {
			continue // one obligation per package would hide nothing; only flagged functions are listed
		}
		res.Bad(name, pos, name, strings.Join(found, "; "))
	}
	res.OK("functions", "-", "", fmt.Sprintf("%d functions scanned for map iteration, select, go and pointer formatting", res.Instances["functions"]))
	return res
}

// CLIPublish decides rule cli-publish-before-go for a command package.
func CLIPublish(w *World, rel string) *report.RuleResult {
	res := report.NewResult("cli-publish-before-go")
	fns := w.InPkgs(rel)
	var mainFn *ssa.Function
	for _, fn := range fns {
		if fn.Name() == "main" && fn.Parent() == nil {
			mainFn = fn
		}
	}
	if mainFn == nil {
		res.Unknown(rel+"/main", rel, "", "undecided: no main function")
		return res
	}
	// go statements and their targets
	type goSite struct {
		in *ssa.Go
		fn *ssa.Function
	}
	var gos []goSite
	workers := map[*ssa.Function]bool{}
	for _, fn := range fns {
		for _, b := range fn.Blocks {
			for _, in := range b.Instrs {
				if g, ok := in.(*ssa.Go); ok {
					callee := g.Call.StaticCallee()
					gos = append(gos, goSite{g, fn})
					res.Count("go-statements", 1)
					key := w.Name(fn) + "/go"
					if callee == nil {
						if mc, ok := g.Call.Value.(*ssa.MakeClosure); ok {
							callee, _ = mc.Fn.(*ssa.Function)
							for _, bnd := range mc.Bindings {
								if !shareable(bnd.Type()) {
									res.Bad(key+"/capture:"+bnd.Name(), w.InstrPos(in), w.Name(fn), "goroutine closure captures "+bnd.Name()+" of type "+bnd.Type().String()+" (not a channel or sync primitive)")
								}
							}
						}
					}
					if callee == nil {
						res.Unknown(key, w.InstrPos(in), w.Name(fn), "undecided: goroutine target is not statically known")
						continue
					}
					key += ":" + callee.Name()
					workers[callee] = true
					okArgs := true
					for _, a := range g.Call.Args {
						if !shareable(a.Type()) {
							okArgs = false
							res.Bad(key+"/arg", w.InstrPos(in), w.Name(fn), "goroutine receives "+a.Type().String()+" (workers may share only channels)")
						}
					}
					if fn != mainFn {
						res.Bad(key+"/outside-main", w.InstrPos(in), w.Name(fn), "goroutine started outside main: publication order cannot be decided")
					} else if okArgs {
						res.OK(key, w.InstrPos(in), w.Name(fn), "goroutine "+callee.Name()+" receives only channels")
					}
				}
			}
		}
	}
	var ws []*ssa.Function
	for f := range workers {
		ws = append(ws, f)
	}
	reach := w.StaticClosure(ws, nil)
	inWorker := map[*ssa.Function]bool{}
	for _, f := range reach {
		inWorker[f] = true
	}
	dom := func(a, b *ssa.BasicBlock) bool { return a.Dominates(b) }
	// every write-like use of a package-level variable: a store rooted at it, or
	// its address handed to a function (flag.StringVar(&v, …)); methods of sync
	// types are made for sharing and exempt.
	for _, fn := range w.Funcs {
		for _, b := range fn.Blocks {
			for idx, in := range b.Instrs {
				var g *ssa.Global
				how := "store"
				switch x := in.(type) {
				case *ssa.Store:
					ai := ClassifyAddr(x.Addr)
					g, _ = ai.Root.(*ssa.Global)
				case ssa.CallInstruction:
					com := x.Common()
					for _, a := range com.Args {
						ai := ClassifyAddr(a)
						if gg, ok := ai.Root.(*ssa.Global); ok {
							if callee := com.StaticCallee(); callee != nil && callee.Signature.Recv() != nil {
								if n := namedOf(callee.Signature.Recv().Type()); n != nil && n.Obj().Pkg() != nil && n.Obj().Pkg().Path() == "sync" {
									continue
								}
							}
							g, how = gg, "addr"
						}
					}
				}
				if g == nil || g.Pkg == nil || load.Rel(g.Pkg.Pkg) != rel || !load.InModule(g.Pkg.Pkg) {
					continue
				}
				if isInit(fn) {
					continue
				}
				res.Count("global-stores", 1)
				key := w.Name(fn) + "/" + how + ":" + g.Name()
				switch {
				case inWorker[fn]:
					res.Bad(key, w.InstrPos(in), w.Name(fn), "worker goroutine code writes package-level variable "+g.Name())
				case fn != mainFn:
					res.Bad(key, w.InstrPos(in), w.Name(fn), "package-level variable "+g.Name()+" is written outside main")
				default:
					okAll := true
					for _, gs := range gos {
						gb := gs.in.Block()
						if gs.fn != mainFn {
							continue
						}
						if gb == b {
							gi := -1
							for j, x := range b.Instrs {
								if x == gs.in {
									gi = j
								}
							}
							if idx > gi || reachable(gb, b) {
								okAll = false
							}
						} else if !dom(b, gb) || reachable(gb, b) {
							okAll = false
						}
					}
					if okAll {
						res.OK(key, w.InstrPos(in), w.Name(fn), "written in main on a block that dominates every go statement and is not reachable from any")
					} else {
						res.Bad(key, w.InstrPos(in), w.Name(fn), "package-level variable "+g.Name()+" may be written after a worker goroutine was started")
					}
				}
			}
		}
	}
	res.Count("worker-functions", len(reach))
	return res
}

func shareable(t types.Type) bool {
	switch u := t.Underlying().(type) {
	case *types.Chan:
		return true
	case *types.Basic:
		return true
	case *types.Pointer:
		if n := namedOf(u); n != nil && n.Obj().Pkg() != nil && n.Obj().Pkg().Path() == "sync" {
			return true
		}
	}
	return false
}

func reachable(from, to *ssa.BasicBlock) bool {
	seen := map[*ssa.BasicBlock]bool{}
	var dfs func(b *ssa.BasicBlock) bool
	dfs = func(b *ssa.BasicBlock) bool {
		if b == to {
			return true
		}
		if seen[b] {
			return false
		}
		seen[b] = true
		for _, s := range b.Succs {
			if dfs(s) {
				return true
			}
		}
		return false
	}
	for _, s := range from.Succs {
		if dfs(s) {
			return true
		}
	}
	return false
}

// WhoWritesMapField: MapUpdate / Store instructions whose target is the map
// held in field `field` (of any struct of package rel) occur only in the
// allowed functions; the field itself is assigned only in constructors.
func WhoWritesMapField(w *World, rule, rel, field string, allowed ...string) *report.RuleResult {
	res := report.NewResult(rule)
	ok := map[string]bool{}
	for _, a := range allowed {
		ok[a] = true
	}
	isField := func(v ssa.Value) bool {
		u, isLoad := v.(*ssa.UnOp)
		if !isLoad || u.Op != token.MUL {
			return false
		}
		fa, isFA := u.X.(*ssa.FieldAddr)
		return isFA && fieldName(fa.X.Type(), fa.Field) == field
	}
	for _, fn := range w.Funcs {
		name := w.Name(fn)
		for _, b := range fn.Blocks {
			for _, in := range b.Instrs {
				switch x := in.(type) {
				case *ssa.MapUpdate:
					if isField(x.Map) {
						res.Count("writers", 1)
						if ok[name] {
							res.OK(name+"/update", w.InstrPos(in), name, "writes "+field+" (allowed writer)")
						} else {
							res.Bad(name+"/update", w.InstrPos(in), name, field+" is written outside "+strings.Join(allowed, ", ")+": something other than a declaration or a resolved reference enters the map")
						}
					}
				case *ssa.Store:
					if fa, isFA := x.Addr.(*ssa.FieldAddr); isFA && fieldName(fa.X.Type(), fa.Field) == field && load.Rel(fnPkg(fn)) == rel {
						if Fresh(fa.X, map[ssa.Value]bool{}) {
							res.OK(name+"/init", w.InstrPos(in), name, field+" initialised in a constructor")
						} else {
							res.Bad(name+"/assign", w.InstrPos(in), name, field+" of an existing resolver is replaced")
						}
					}
				case ssa.CallInstruction:
					com := x.Common()
					if b, isB := com.Value.(*ssa.Builtin); isB && (b.Name() == "delete" || b.Name() == "clear") && len(com.Args) > 0 && isField(com.Args[0]) {
						res.Bad(name+"/"+b.Name(), w.InstrPos(in), name, "entries of "+field+" are removed")
					}
				}
			}
		}
	}
	return res
}

// SendFresh decides rule send-fresh for a command package: what a goroutine
// sends on a channel must not share mutable storage with what the sender keeps
// for later iterations. For every Send instruction inside a loop, each
// reference-typed component of the sent value that is loaded from a local
// variable must come from a variable allocated inside the innermost loop that
// contains the send (a fresh variable per iteration), or be a parameter-less
// constant; a variable declared outside the loop and written or appended to
// inside it is shared between the message already sent and the next one.
func SendFresh(w *World, rel string) *report.RuleResult {
	res := report.NewResult("send-fresh")
	for _, fn := range w.InPkgs(rel) {
		name := w.Name(fn)
		// natural loops: back edges b -> h with h dominating b
		type loop struct {
			header *ssa.BasicBlock
			body   map[*ssa.BasicBlock]bool
		}
		var loops []loop
		for _, b := range fn.Blocks {
			for _, s := range b.Succs {
				if s.Dominates(b) {
					l := loop{header: s, body: map[*ssa.BasicBlock]bool{s: true}}
					stack := []*ssa.BasicBlock{b}
					for len(stack) > 0 {
						x := stack[len(stack)-1]
						stack = stack[:len(stack)-1]
						if l.body[x] {
							continue
						}
						l.body[x] = true
						stack = append(stack, x.Preds...)
					}
					loops = append(loops, l)
				}
			}
		}
		innermost := func(b *ssa.BasicBlock) *loop {
			var best *loop
			for i := range loops {
				if loops[i].body[b] && (best == nil || len(loops[i].body) < len(best.body)) {
					best = &loops[i]
				}
			}
			return best
		}
		nsend := 0
		for _, b := range fn.Blocks {
			for _, in := range b.Instrs {
				snd, ok := in.(*ssa.Send)
				if !ok {
					continue
				}
				nsend++
				res.Count("sends", 1)
				key := fmt.Sprintf("%s/send#%d", name, nsend)
				lp := innermost(b)
				if lp == nil {
					res.OK(key, w.InstrPos(in), name, "sent once, outside any loop")
					continue
				}
				// allocations the sent value is built from
				var bad []string
				seen := map[ssa.Value]bool{}
				var visit func(v ssa.Value)
				visit = func(v ssa.Value) {
					if v == nil || seen[v] {
						return
					}
					seen[v] = true
					switch x := v.(type) {
					case *ssa.Alloc:
						// a local: where is it allocated, and what is stored into it?
						if refType(x.Type().(*types.Pointer).Elem()) || true {
							if !lp.body[x.Block()] {
								// allocated once for the whole loop: is it modified inside the loop?
								for _, r := range *x.Referrers() {
									if st, ok := r.(*ssa.Store); ok && st.Addr == x && lp.body[st.Block()] {
										if refType(st.Val.Type()) {
											bad = append(bad, fmt.Sprintf("variable %s is declared outside the loop, assigned inside it and part of the value sent", x.Comment))
										}
									}
								}
							}
							for _, r := range *x.Referrers() {
								if st, ok := r.(*ssa.Store); ok && st.Addr == x {
									visit(st.Val)
								}
								if fa, ok := r.(*ssa.FieldAddr); ok {
									for _, r2 := range *fa.Referrers() {
										if st, ok := r2.(*ssa.Store); ok && st.Addr == fa {
											visit(st.Val)
										}
									}
								}
							}
						}
					case *ssa.UnOp:
						visit(x.X)
					case *ssa.Phi:
						if x.Block() == lp.header && refType(x.Type()) {
							bad = append(bad, fmt.Sprintf("%s carries a reference from one iteration to the next and is part of the value sent", x.Comment))
						}
						for _, e := range x.Edges {
							visit(e)
						}
					case *ssa.Slice:
						// s[:0] re-uses the backing array of s
						visit(x.X)
					case *ssa.MakeInterface:
						visit(x.X)
					case *ssa.FieldAddr:
						visit(x.X)
					case *ssa.Call:
						if bi, ok := x.Call.Value.(*ssa.Builtin); ok && bi.Name() == "append" {
							visit(x.Call.Args[0])
						}
					case *ssa.MakeClosure:
						for _, bnd := range x.Bindings {
							visit(bnd)
						}
					}
				}
				visit(snd.X)
				// closures created in the loop that capture outer variables and write them
				if len(bad) == 0 {
					res.OK(key, w.InstrPos(in), name, "every reference in the sent value comes from a variable that is fresh in each iteration")
				} else {
					res.Bad(key, w.InstrPos(in), name, dedupeStr(bad)+": the receiver and the next iteration share the same storage (data race, results of one file overwritten by the next)")
				}
			}
		}
	}
	return res
}

func dedupeStr(ss []string) string {
	seen := map[string]bool{}
	var out []string
	for _, s := range ss {
		if !seen[s] {
			seen[s] = true
			out = append(out, s)
		}
	}
	return strings.Join(out, "; ")
}
