package effects

import (
	"go/token"
	"sort"

	"golang.org/x/tools/go/ssa"

	"verif/internal/report"
)

// GlobalsAssigned decides rule globals-assigned for the command: a package-level variable without an
// initialiser that some function reads must be written somewhere in the package - by a store, or by handing
// its address to a function (flag.StringVar(&v, …)). A variable that is read but never written is the zero
// value for ever: the option it was meant to carry is silently ignored. That is what `phpVersion, err :=
// version.New(phpVer)` does to the package-level phpVersion the parser workers read (seed C09-13): the
// short declaration makes a new local, the workers see nil, and parser.Parse falls back to 7.4 whatever
// -phpver says.
func GlobalsAssigned(w *World, rel string) *report.RuleResult {
	res := report.NewResult("globals-assigned")
	type use struct {
		reads, writes, escapes int
		firstRead             ssa.Instruction
		firstReadFn           *ssa.Function
	}
	uses := map[*ssa.Global]*use{}
	get := func(g *ssa.Global) *use {
		u := uses[g]
		if u == nil {
			u = &use{}
			uses[g] = u
		}
		return u
	}
	fns := w.InPkgs(rel)
	var pkg *ssa.Package
	for _, fn := range fns {
		if fn.Pkg != nil {
			pkg = fn.Pkg
		}
		for _, b := range fn.Blocks {
			for _, in := range b.Instrs {
				for _, op := range in.Operands(nil) {
					g, ok := (*op).(*ssa.Global)
					if !ok || g.Pkg == nil || g.Pkg != fn.Pkg {
						continue
					}
					u := get(g)
					switch x := in.(type) {
					case *ssa.Store:
						if x.Addr == g {
							u.writes++
						} else {
							u.escapes++ // the address itself is stored somewhere
						}
					case *ssa.UnOp:
						if x.Op == token.MUL && x.X == g {
							u.reads++
							if u.firstRead == nil {
								u.firstRead, u.firstReadFn = in, fn
							}
						} else {
							u.escapes++
						}
					case *ssa.FieldAddr, *ssa.IndexAddr:
						// a part of the variable is addressed: counts as both (sync.WaitGroup methods, struct fields)
						u.reads++
						u.escapes++
					default:
						u.escapes++ // passed to a call, converted, …: may be written through
					}
				}
			}
		}
	}
	if pkg == nil {
		res.Unknown(rel, "-", rel, "undecided:anchor: package "+rel+" has no functions")
		return res
	}
	var names []string
	byName := map[string]*ssa.Global{}
	for _, m := range pkg.Members {
		if g, ok := m.(*ssa.Global); ok && g.Name() != "init$guard" {
			names = append(names, g.Name())
			byName[g.Name()] = g
		}
	}
	sort.Strings(names)
	for _, n := range names {
		g := byName[n]
		u := uses[g]
		res.Count("variables", 1)
		key := rel + "/" + n
		pos := w.Pos(g.Pos())
		switch {
		case u == nil || u.reads == 0:
			res.OK(key, pos, n, "not read by any function")
		case u.writes > 0 || u.escapes > 0:
			res.OK(key, pos, n, "read, and written by a store or through its address")
		default:
			res.Bad(key, w.InstrPos(u.firstRead), n, "the package-level variable "+n+" is read (first in "+w.Name(u.firstReadFn)+") but nothing in the package writes it or takes its address: it is the zero value for ever, so whatever it was meant to carry (a command-line option) is silently ignored - typically a `:=` that declared a local of the same name")
		}
	}
	return res
}
