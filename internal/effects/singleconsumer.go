package effects

import (
	"fmt"
	"go/token"
	"go/types"
	"strings"

	"golang.org/x/tools/go/ssa"

	"verif/internal/load"
	"verif/internal/report"
)

// SingleConsumer decides rule single-consumer for the command: the goroutine that takes parsed files from a
// channel and prints, dumps or resolves them writes to the process's one standard output (and back to the
// files); it must be started exactly once and not in a loop. Two such goroutines interleave the dumps of
// different files, so the dump of a file is no longer what dumping it alone gives (round 6: "speed up -pb by
// starting one printer per CPU"). The consumer is found by what it does, not by name: a function of the
// package that receives from a channel parameter and - itself or through the package's functions it calls -
// uses a visitor of pkg/visitor (printer, dumper, traverser, resolver).
func SingleConsumer(w *World, rel string) *report.RuleResult {
	res := report.NewResult("single-consumer")
	fns := w.InPkgs(rel)
	inPkg := map[*ssa.Function]bool{}
	for _, fn := range fns {
		inPkg[fn] = true
	}
	isVisitor := func(t types.Type) bool {
		n := namedOf(t)
		if n == nil || n.Obj().Pkg() == nil {
			return false
		}
		if _, ok := n.Underlying().(*types.Struct); !ok {
			return false
		}
		return strings.HasPrefix(load.Rel(n.Obj().Pkg()), "pkg/visitor")
	}
	usesVisitor := map[*ssa.Function]bool{}
	callees := map[*ssa.Function][]*ssa.Function{}
	receives := map[*ssa.Function]bool{}
	for _, fn := range fns {
		params := map[ssa.Value]bool{}
		for _, p := range fn.Params {
			if _, ok := p.Type().Underlying().(*types.Chan); ok {
				params[p] = true
			}
		}
		for _, b := range fn.Blocks {
			for _, in := range b.Instrs {
				if v, ok := in.(ssa.Value); ok && isVisitor(v.Type()) {
					usesVisitor[fn] = true
				}
				switch x := in.(type) {
				case *ssa.UnOp:
					if x.Op == token.ARROW && params[x.X] {
						receives[fn] = true
					}
				case *ssa.Range:
					if params[x.X] {
						receives[fn] = true
					}
				case *ssa.Select:
					for _, st := range x.States {
						if st.Dir == types.RecvOnly && params[st.Chan] {
							receives[fn] = true
						}
					}
				case ssa.CallInstruction:
					if _, isGo := in.(*ssa.Go); !isGo {
						if c := x.Common().StaticCallee(); c != nil && inPkg[c] {
							callees[fn] = append(callees[fn], c)
						}
					}
				}
			}
		}
	}
	var reaches func(fn *ssa.Function, seen map[*ssa.Function]bool) bool
	reaches = func(fn *ssa.Function, seen map[*ssa.Function]bool) bool {
		if seen[fn] {
			return false
		}
		seen[fn] = true
		if usesVisitor[fn] {
			return true
		}
		for _, c := range callees[fn] {
			if reaches(c, seen) {
				return true
			}
		}
		return false
	}
	type site struct {
		in     *ssa.Go
		inLoop bool
		fn     *ssa.Function
	}
	starts := map[*ssa.Function][]site{}
	for _, fn := range fns {
		// blocks that lie on a cycle
		onCycle := map[*ssa.BasicBlock]bool{}
		for _, b := range fn.Blocks {
			for _, s := range b.Succs {
				if s.Dominates(b) {
					stack := []*ssa.BasicBlock{b}
					body := map[*ssa.BasicBlock]bool{s: true}
					for len(stack) > 0 {
						x := stack[len(stack)-1]
						stack = stack[:len(stack)-1]
						if body[x] {
							continue
						}
						body[x] = true
						stack = append(stack, x.Preds...)
					}
					for x := range body {
						onCycle[x] = true
					}
				}
			}
		}
		for _, b := range fn.Blocks {
			for _, in := range b.Instrs {
				g, ok := in.(*ssa.Go)
				if !ok {
					continue
				}
				c := g.Common().StaticCallee()
				if c == nil {
					continue
				}
				// a literal wrapping the call: go func() { worker(ch) }()
				target := c
				if !inPkg[c] && c.Parent() != nil && inPkg[c.Parent()] {
					target = c
				}
				starts[target] = append(starts[target], site{g, onCycle[b], fn})
			}
		}
	}
	for _, fn := range fns {
		if !receives[fn] || !reaches(fn, map[*ssa.Function]bool{}) {
			continue
		}
		res.Count("consumers", 1)
		name := w.Name(fn)
		ss := starts[fn]
		key := name
		switch {
		case len(ss) == 0:
			res.OK(key, w.Pos(fn.Pos()), name, "not started as a goroutine")
		case len(ss) > 1:
			res.Bad(key, w.InstrPos(ss[1].in), name, fmt.Sprintf("the goroutine that prints and dumps the parsed files is started at %d places: their output to the one standard output interleaves, so what is written for a file is not what processing it alone writes", len(ss)))
		case ss[0].inLoop:
			res.Bad(key, w.InstrPos(ss[0].in), name, "the goroutine that prints and dumps the parsed files is started in a loop: several of them write to the one standard output at the same time, so the dumps of different files interleave")
		default:
			res.OK(key, w.InstrPos(ss[0].in), name, "started once, outside every loop")
		}
	}
	return res
}
