// Package norm rewrites a function body into the canonical shape the idiom
// recognisers of the rule engines expect, so that a behaviour-preserving
// refactoring of the code under analysis (a helper extracted or inlined, a
// switch instead of an if chain, a repeated expression hoisted into a local, an
// index loop instead of a range loop, `a || b` guards merged) does not change a
// verdict. Every rewriting step is semantics-preserving for the questions the
// rules ask (which calls happen with which arguments under which conditions);
// the result is only analysed, never compiled.
//
// The rewritten tree consists of fresh nodes; the type information of the
// nodes they were copied from is registered for them in the package's
// types.Info, so consumers keep resolving objects and types as usual.
package norm

import (
	"go/ast"
	"go/constant"
	"go/token"
	"go/types"
	"reflect"
	"strconv"

	"golang.org/x/tools/go/packages"
	"golang.org/x/tools/go/types/typeutil"
)

// Options select what is rewritten.
type Options struct {
	// Keep: functions the consumer interprets itself (its primitives); calls to
	// them are never inlined.
	Keep func(fn *types.Func) bool
	// Extra packages whose functions may be inlined as well (same module).
	Extra []*packages.Package
	// NoCopyProp disables the substitution of single-assignment locals.
	NoCopyProp bool
	// SplitCond rewrites `if a || b` / `if a && b` into nested ifs on a and b.
	SplitCond bool
	// NoLoops keeps index loops as they are.
	NoLoops bool
	// KeepTypeAssertLocals: do not propagate `x := y.(T)` (the consumer tracks such locals itself).
	KeepTypeAssertLocals bool
}

// N normalises functions of one package.
type N struct {
	Pkg   *packages.Package
	Info  *types.Info
	Opt   Options
	decls map[*types.Func]*ast.FuncDecl
	infos map[*types.Func]*types.Info
	// Notes lists what was done (for evidence).
	Inlined map[string]int
	budget  int
	// extent of the function being normalised (positions inside are comparable; nodes inlined from
	// other functions keep foreign positions) and, per assigned field, where it is assigned
	lo, hi      token.Pos
	fieldAssign map[types.Object][]token.Pos
	root        *ast.BlockStmt // the block being normalised, while its loops are rewritten
	rewrote     bool
}

func New(pk *packages.Package, opt Options) *N {
	n := &N{Pkg: pk, Info: pk.TypesInfo, Opt: opt, decls: map[*types.Func]*ast.FuncDecl{}, infos: map[*types.Func]*types.Info{}, Inlined: map[string]int{}}
	for _, q := range append([]*packages.Package{pk}, opt.Extra...) {
		for _, f := range q.Syntax {
			for _, d := range f.Decls {
				if fd, ok := d.(*ast.FuncDecl); ok && fd.Body != nil {
					if o, ok := q.TypesInfo.Defs[fd.Name].(*types.Func); ok {
						n.decls[o] = fd
						n.infos[o] = q.TypesInfo
					}
				}
			}
		}
	}
	return n
}

// Body returns the normalised copy of fd's body.
func (n *N) Body(fd *ast.FuncDecl) *ast.BlockStmt {
	var self *types.Func
	if o, ok := n.Info.Defs[fd.Name].(*types.Func); ok {
		self = o
	}
	return n.Block(fd.Body, self)
}

// Block normalises a copy of a statement block (self: the function it belongs to, never inlined into itself).
func (n *N) Block(b *ast.BlockStmt, self *types.Func) *ast.BlockStmt {
	n.budget = 400
	n.lo, n.hi = b.Pos(), b.End()
	c := &cloner{n: n, from: n.Info}
	body := c.node(b).(*ast.BlockStmt)
	stack := map[*types.Func]bool{}
	if self != nil {
		stack[self] = true
	}
	body.List = n.stmts(body.List, stack, 0)
	if !n.Opt.NoCopyProp {
		body.List = n.copyProp(body.List)
	}
	if !n.Opt.NoLoops {
		n.root = body
		n.rewrote = false
		body.List = n.loops(body.List)
		if n.rewrote && !n.Opt.NoCopyProp {
			// a local that a head-tail loop consumed is now only read: it stands for what it was set to
			body.List = n.copyProp(body.List)
		}
		n.root = nil
	}
	return body
}

// ---- cloning with substitution -----------------------------------------------------------------

type cloner struct {
	n     *N
	from  *types.Info
	subst map[types.Object]ast.Expr
	repl  map[ast.Node]ast.Node // node → replacement (by identity)
	hook  func(ast.Node) ast.Node
}

var (
	nodeT  = reflect.TypeOf((*ast.Node)(nil)).Elem()
	identT = reflect.TypeOf((*ast.Ident)(nil))
)

func (c *cloner) node(x ast.Node) ast.Node {
	if x == nil || reflect.ValueOf(x).IsNil() {
		return x
	}
	if r, ok := c.repl[x]; ok {
		return r
	}
	if c.hook != nil {
		if r := c.hook(x); r != nil {
			return r
		}
	}
	if id, ok := x.(*ast.Ident); ok && c.subst != nil {
		if o := c.from.Uses[id]; o != nil {
			if r, ok := c.subst[o]; ok {
				cc := &cloner{n: c.n, from: c.n.Info}
				e := cc.node(r).(ast.Expr)
				return c.n.wrap(e)
			}
		}
	}
	v := reflect.ValueOf(x)
	if v.Kind() != reflect.Ptr || v.Elem().Kind() != reflect.Struct {
		return x
	}
	nv := reflect.New(v.Elem().Type())
	for i := 0; i < v.Elem().NumField(); i++ {
		f := v.Elem().Field(i)
		nf := nv.Elem().Field(i)
		if !nf.CanSet() {
			continue
		}
		switch f.Kind() {
		case reflect.Interface:
			if f.IsNil() {
				continue
			}
			if nd, ok := f.Interface().(ast.Node); ok {
				nf.Set(reflect.ValueOf(c.node(nd)))
			} else {
				nf.Set(f)
			}
		case reflect.Ptr:
			if f.IsNil() {
				continue
			}
			switch f.Interface().(type) {
			case *ast.Object, *ast.Scope, *ast.CommentGroup:
				continue
			}
			if nd, ok := f.Interface().(ast.Node); ok {
				nf.Set(reflect.ValueOf(c.node(nd)))
			} else {
				nf.Set(f)
			}
		case reflect.Slice:
			if f.IsNil() {
				continue
			}
			ns := reflect.MakeSlice(f.Type(), f.Len(), f.Len())
			for j := 0; j < f.Len(); j++ {
				el := f.Index(j)
				if el.Kind() == reflect.Interface || el.Kind() == reflect.Ptr {
					if el.IsNil() {
						continue
					}
					if nd, ok := el.Interface().(ast.Node); ok {
						ns.Index(j).Set(reflect.ValueOf(c.node(nd)))
						continue
					}
				}
				ns.Index(j).Set(el)
			}
			nf.Set(ns)
		default:
			nf.Set(f)
		}
	}
	out := nv.Interface().(ast.Node)
	c.copyInfo(x, out)
	// *(&x) → x (a pointer parameter replaced by the address its caller passes)
	if st, ok := out.(*ast.StarExpr); ok {
		in := st.X
		for {
			p, ok := in.(*ast.ParenExpr)
			if !ok {
				break
			}
			in = p.X
		}
		if ue, ok := in.(*ast.UnaryExpr); ok && ue.Op == token.AND {
			return ue.X
		}
	}
	return out
}

func (c *cloner) copyInfo(from, to ast.Node) {
	dst := c.n.Info
	if e, ok := from.(ast.Expr); ok {
		if tv, ok := c.from.Types[e]; ok {
			dst.Types[to.(ast.Expr)] = tv
		}
	}
	switch f := from.(type) {
	case *ast.Ident:
		t := to.(*ast.Ident)
		if o, ok := c.from.Defs[f]; ok {
			dst.Defs[t] = o
		}
		if o, ok := c.from.Uses[f]; ok {
			dst.Uses[t] = o
		}
	case *ast.SelectorExpr:
		if s, ok := c.from.Selections[f]; ok {
			dst.Selections[to.(*ast.SelectorExpr)] = s
		}
	case *ast.CaseClause:
		if o, ok := c.from.Implicits[f]; ok {
			dst.Implicits[to] = o
		}
	}
}

// Canon renders e with the objects in names printed under their canonical
// name and every named constant printed as its value, so that two spellings of
// the same expression (renamed receiver or parameters, a literal replaced by a
// named constant) give the same text.
func Canon(info *types.Info, e ast.Expr, names map[types.Object]string) string {
	n := &N{Info: &types.Info{Types: map[ast.Expr]types.TypeAndValue{}, Defs: map[*ast.Ident]types.Object{}, Uses: map[*ast.Ident]types.Object{},
		Selections: map[*ast.SelectorExpr]*types.Selection{}, Implicits: map[ast.Node]types.Object{}}}
	lit := func(c *types.Const) ast.Node {
		if c.Pkg() == nil {
			return nil // true, false, iota
		}
		switch c.Val().Kind() {
		case constant.String:
			return &ast.BasicLit{Kind: token.STRING, Value: strconv.Quote(constant.StringVal(c.Val()))}
		case constant.Int:
			return &ast.BasicLit{Kind: token.INT, Value: c.Val().ExactString()}
		}
		return nil
	}
	c := &cloner{n: n, from: info}
	c.hook = func(x ast.Node) ast.Node {
		switch y := x.(type) {
		case *ast.Ident:
			o := info.Uses[y]
			if nm, ok := names[o]; ok && o != nil {
				return &ast.Ident{Name: nm}
			}
			if k, ok := o.(*types.Const); ok {
				return lit(k)
			}
		case *ast.SelectorExpr:
			if k, ok := info.Uses[y.Sel].(*types.Const); ok {
				if _, isPkg := info.Uses[identOf(y.X)].(*types.PkgName); isPkg {
					return lit(k)
				}
			}
		case *ast.ParenExpr:
			// parentheses around anything but a binary expression carry no meaning
			in := y.X
			if _, isBin := in.(*ast.BinaryExpr); !isBin {
				return c.node(in)
			}
		}
		return nil
	}
	for {
		p, ok := e.(*ast.ParenExpr)
		if !ok {
			break
		}
		e = p.X
	}
	return types.ExprString(c.node(e).(ast.Expr))
}

func identOf(e ast.Expr) *ast.Ident {
	id, _ := e.(*ast.Ident)
	return id
}

// wrap parenthesises a binary expression that takes the place of an operand.
func (n *N) wrap(e ast.Expr) ast.Expr {
	if _, ok := e.(*ast.BinaryExpr); ok {
		p := &ast.ParenExpr{X: e}
		if tv, ok := n.Info.Types[e]; ok {
			n.Info.Types[p] = tv
		}
		return p
	}
	return e
}

// ---- statement rewriting -----------------------------------------------------------------------

func (n *N) stmts(list []ast.Stmt, stack map[*types.Func]bool, depth int) []ast.Stmt {
	var out []ast.Stmt
	for i := 0; i < len(list); i++ {
		s := list[i]
		switch x := s.(type) {
		case *ast.BlockStmt:
			x.List = n.stmts(x.List, stack, depth)
			out = append(out, x)
		case *ast.LabeledStmt:
			x.Stmt = n.stmts([]ast.Stmt{x.Stmt}, stack, depth)[0]
			out = append(out, x)
		case *ast.IfStmt:
			out = append(out, n.ifStmt(x, stack, depth)...)
		case *ast.ForStmt:
			x.Body.List = n.stmts(x.Body.List, stack, depth)
			out = append(out, x)
		case *ast.RangeStmt:
			x.Body.List = n.stmts(x.Body.List, stack, depth)
			out = append(out, x)
		case *ast.SwitchStmt:
			if r, ok := n.switchToIf(x); ok {
				out = append(out, n.stmts(r, stack, depth)...)
				continue
			}
			for _, c := range x.Body.List {
				cc := c.(*ast.CaseClause)
				cc.Body = n.stmts(cc.Body, stack, depth)
			}
			out = append(out, x)
		case *ast.TypeSwitchStmt:
			for _, c := range x.Body.List {
				cc := c.(*ast.CaseClause)
				cc.Body = n.stmts(cc.Body, stack, depth)
			}
			out = append(out, x)
		case *ast.ExprStmt, *ast.AssignStmt, *ast.ReturnStmt, *ast.IncDecStmt, *ast.DeclStmt:
			if r, ok := n.inlineIn(s, stack, depth); ok {
				out = append(out, r...)
				continue
			}
			out = append(out, s)
		default:
			out = append(out, s)
		}
	}
	return out
}

func (n *N) ifStmt(x *ast.IfStmt, stack map[*types.Func]bool, depth int) []ast.Stmt {
	var pre []ast.Stmt
	if x.Init != nil {
		// hoist the init statement: `if v := e; c {}` → `v := e; if c {}` (names are objects here, scopes do not matter)
		pre = n.stmts([]ast.Stmt{x.Init}, stack, depth)
		x.Init = nil
	}
	x.Cond = n.exprInline(x.Cond, stack, depth)
	x.Body.List = n.stmts(x.Body.List, stack, depth)
	switch e := x.Else.(type) {
	case *ast.BlockStmt:
		e.List = n.stmts(e.List, stack, depth)
	case *ast.IfStmt:
		r := n.ifStmt(e, stack, depth)
		if len(r) == 1 {
			x.Else = r[0]
		} else {
			x.Else = &ast.BlockStmt{List: r}
		}
	}
	if n.Opt.SplitCond {
		return append(pre, n.splitCond(x)...)
	}
	return append(pre, x)
}

// splitCond: `if a || b {S} else {E}` → `if a {S} else if b {S'} else {E}`;
// `if a && b {S} else {E}` → `if a { if b {S} else {E'} } else {E}`; `if !(c)`.
func (n *N) splitCond(x *ast.IfStmt) []ast.Stmt {
	cond := x.Cond
	for {
		p, ok := cond.(*ast.ParenExpr)
		if !ok {
			break
		}
		cond = p.X
	}
	be, ok := cond.(*ast.BinaryExpr)
	if !ok || (be.Op != token.LOR && be.Op != token.LAND) || n.budget <= 0 {
		return []ast.Stmt{x}
	}
	n.budget--
	c := &cloner{n: n, from: n.Info}
	if be.Op == token.LOR {
		second := &ast.IfStmt{If: x.If, Cond: be.Y, Body: c.node(x.Body).(*ast.BlockStmt), Else: x.Else}
		first := &ast.IfStmt{If: x.If, Cond: be.X, Body: x.Body}
		r := n.splitCond(second)
		if len(r) == 1 {
			first.Else = r[0]
		} else {
			first.Else = &ast.BlockStmt{List: r}
		}
		return n.splitCond(first)
	}
	inner := &ast.IfStmt{If: x.If, Cond: be.Y, Body: x.Body}
	if x.Else != nil {
		inner.Else = c.node(x.Else).(ast.Stmt)
	}
	outer := &ast.IfStmt{If: x.If, Cond: be.X, Body: &ast.BlockStmt{List: n.splitCond(inner)}, Else: x.Else}
	return n.splitCond(outer)
}

// switchToIf rewrites a tagless switch without fallthrough/break into an if chain.
func (n *N) switchToIf(x *ast.SwitchStmt) ([]ast.Stmt, bool) {
	// a tagged switch on a plain variable (parameter, local, or a field chain of one) compares it with each
	// case expression: `switch t { case a, b: … }` is `if t == a || t == b { … }`
	var tag ast.Expr
	if x.Tag != nil {
		t := x.Tag
		for {
			if p, ok := t.(*ast.ParenExpr); ok {
				t = p.X
				continue
			}
			break
		}
		switch t.(type) {
		case *ast.Ident, *ast.SelectorExpr:
			if !simpleArg(t) {
				return nil, false
			}
			tag = t
		default:
			return nil, false
		}
	}
	var pre []ast.Stmt
	if x.Init != nil {
		pre = append(pre, x.Init)
	}
	var clauses []*ast.CaseClause
	var def *ast.CaseClause
	for _, c := range x.Body.List {
		cc := c.(*ast.CaseClause)
		bad := false
		ast.Inspect(cc, func(m ast.Node) bool {
			switch y := m.(type) {
			case *ast.BranchStmt:
				if y.Tok == token.FALLTHROUGH || (y.Tok == token.BREAK && y.Label == nil) {
					bad = true
				}
			case *ast.ForStmt, *ast.RangeStmt, *ast.SwitchStmt, *ast.TypeSwitchStmt, *ast.SelectStmt, *ast.FuncLit:
				if m != ast.Node(cc) {
					// a break inside a nested loop/switch belongs to it
					return false
				}
			}
			return true
		})
		if bad {
			return nil, false
		}
		if cc.List == nil {
			def = cc
		} else {
			clauses = append(clauses, cc)
		}
	}
	var head, cur *ast.IfStmt
	for _, cc := range clauses {
		var cond ast.Expr
		for _, e := range cc.List {
			if tag != nil {
				eq := &ast.BinaryExpr{X: tag, Op: token.EQL, Y: e, OpPos: e.Pos()}
				n.Info.Types[eq] = types.TypeAndValue{Type: types.Typ[types.Bool]}
				e = eq
			}
			if cond == nil {
				cond = e
			} else {
				b := &ast.BinaryExpr{X: cond, Op: token.LOR, Y: e, OpPos: e.Pos()}
				if tv, ok := n.Info.Types[e]; ok {
					n.Info.Types[b] = tv
				}
				cond = b
			}
		}
		is := &ast.IfStmt{If: cc.Case, Cond: cond, Body: &ast.BlockStmt{Lbrace: cc.Colon, List: cc.Body}}
		if head == nil {
			head = is
		} else {
			cur.Else = is
		}
		cur = is
	}
	if head == nil {
		if def != nil {
			return append(pre, def.Body...), true
		}
		return pre, true
	}
	if def != nil {
		cur.Else = &ast.BlockStmt{Lbrace: def.Colon, List: def.Body}
	}
	return append(pre, head), true
}

// ---- inlining -----------------------------------------------------------------------------------

func (n *N) callee(call *ast.CallExpr) (*types.Func, *ast.FuncDecl) {
	fn, _ := typeutil.Callee(n.Info, call).(*types.Func)
	if fn == nil {
		return nil, nil
	}
	fd := n.decls[fn]
	if fd == nil || (n.Opt.Keep != nil && n.Opt.Keep(fn)) {
		return nil, nil
	}
	return fn, fd
}

// inlinable: the body is made of plain statements, ifs, tagless switches and
// returns; no loops containing returns, no defer/go/goto/labels/closures that capture returns.
func inlinable(fd *ast.FuncDecl) bool {
	ok := true
	var walk func(list []ast.Stmt, inLoop bool)
	walk = func(list []ast.Stmt, inLoop bool) {
		for _, s := range list {
			switch x := s.(type) {
			case *ast.ReturnStmt:
				if inLoop {
					ok = false
				}
			case *ast.BlockStmt:
				walk(x.List, inLoop)
			case *ast.IfStmt:
				walk(x.Body.List, inLoop)
				if x.Else != nil {
					walk([]ast.Stmt{x.Else}, inLoop)
				}
			case *ast.ForStmt:
				walk(x.Body.List, true)
			case *ast.RangeStmt:
				walk(x.Body.List, true)
			case *ast.SwitchStmt:
				for _, c := range x.Body.List {
					walk(c.(*ast.CaseClause).Body, inLoop || x.Tag != nil)
				}
				if x.Tag != nil {
					// a tagged switch with returns cannot be turned into nested ifs here
					ast.Inspect(x, func(m ast.Node) bool {
						if _, isRet := m.(*ast.ReturnStmt); isRet {
							ok = false
						}
						return true
					})
				}
			case *ast.TypeSwitchStmt:
				ast.Inspect(x, func(m ast.Node) bool {
					if _, isRet := m.(*ast.ReturnStmt); isRet {
						ok = false
					}
					return true
				})
			case *ast.DeferStmt, *ast.GoStmt, *ast.LabeledStmt, *ast.SelectStmt:
				ok = false
			case *ast.BranchStmt:
				if x.Tok == token.GOTO {
					ok = false
				}
			}
		}
	}
	walk(fd.Body.List, false)
	return ok
}

func simpleArg(e ast.Expr) bool {
	switch x := e.(type) {
	case *ast.Ident, *ast.BasicLit:
		return true
	case *ast.ParenExpr:
		return simpleArg(x.X)
	case *ast.SelectorExpr:
		return simpleArg(x.X)
	case *ast.IndexExpr:
		return simpleArg(x.X) && simpleArg(x.Index)
	case *ast.StarExpr:
		return simpleArg(x.X)
	case *ast.TypeAssertExpr:
		return simpleArg(x.X)
	case *ast.UnaryExpr:
		return simpleArg(x.X)
	case *ast.BinaryExpr:
		return simpleArg(x.X) && simpleArg(x.Y)
	case *ast.SliceExpr:
		return simpleArg(x.X) && (x.Low == nil || simpleArg(x.Low)) && (x.High == nil || simpleArg(x.High))
	case *ast.CompositeLit:
		return len(x.Elts) == 0
	case *ast.CallExpr:
		// conversions and len()
		if len(x.Args) == 1 {
			if id, ok := x.Fun.(*ast.Ident); ok && (id.Name == "len" || id.Name == "string" || id.Name == "byte" || id.Name == "int") {
				return simpleArg(x.Args[0])
			}
			if at, ok := x.Fun.(*ast.ArrayType); ok && at.Len == nil {
				return simpleArg(x.Args[0])
			}
		}
	}
	return false
}

// bind prepares the substitution for one call: parameters and receiver are
// replaced by the argument expressions when these are simple and the parameter
// is not assigned in the body; otherwise `param := arg` statements are produced.
func (n *N) bind(call *ast.CallExpr, fn *types.Func, fd *ast.FuncDecl) (map[types.Object]ast.Expr, []ast.Stmt, bool) {
	finfo := n.infos[fn]
	assigned := map[types.Object]bool{}
	ast.Inspect(fd.Body, func(m ast.Node) bool {
		mark := func(e ast.Expr) {
			for {
				switch y := e.(type) {
				case *ast.ParenExpr:
					e = y.X
					continue
				case *ast.Ident:
					if o := finfo.Uses[y]; o != nil {
						assigned[o] = true
					}
				}
				return
			}
		}
		switch y := m.(type) {
		case *ast.AssignStmt:
			for _, l := range y.Lhs {
				mark(l)
			}
		case *ast.IncDecStmt:
			mark(y.X)
		case *ast.UnaryExpr:
			if y.Op == token.AND {
				mark(y.X)
			}
		case *ast.RangeStmt:
			if y.Key != nil {
				mark(y.Key)
			}
			if y.Value != nil {
				mark(y.Value)
			}
		}
		return true
	})
	subst := map[types.Object]ast.Expr{}
	var pre []ast.Stmt
	one := func(nm *ast.Ident, arg ast.Expr) {
		if nm == nil || nm.Name == "_" {
			return
		}
		o := finfo.Defs[nm]
		if o == nil {
			return
		}
		if simpleArg(arg) && !assigned[o] {
			subst[o] = arg
			return
		}
		id := &ast.Ident{NamePos: arg.Pos(), Name: nm.Name}
		n.Info.Defs[id] = o
		if tv, ok := n.Info.Types[arg]; ok {
			n.Info.Types[id] = tv
		}
		pre = append(pre, &ast.AssignStmt{Lhs: []ast.Expr{id}, Tok: token.DEFINE, TokPos: arg.Pos(), Rhs: []ast.Expr{arg}})
	}
	if fd.Recv != nil && len(fd.Recv.List) == 1 {
		se, ok := call.Fun.(*ast.SelectorExpr)
		if !ok {
			if p, ok2 := call.Fun.(*ast.ParenExpr); ok2 {
				se, ok = p.X.(*ast.SelectorExpr)
			}
		}
		if !ok {
			return nil, nil, false
		}
		if len(fd.Recv.List[0].Names) == 1 {
			one(fd.Recv.List[0].Names[0], se.X)
		}
	}
	var params []*ast.Ident
	variadic := false
	for _, f := range fd.Type.Params.List {
		if _, ok := f.Type.(*ast.Ellipsis); ok {
			variadic = true
		}
		if len(f.Names) == 0 {
			params = append(params, nil)
		}
		for _, nm := range f.Names {
			params = append(params, nm)
		}
	}
	if variadic || len(params) != len(call.Args) {
		return nil, nil, false
	}
	for i, nm := range params {
		one(nm, call.Args[i])
	}
	return subst, pre, true
}

// singleReturn: the body is `return e`.
func singleReturn(fd *ast.FuncDecl) ast.Expr {
	if len(fd.Body.List) != 1 {
		return nil
	}
	r, ok := fd.Body.List[0].(*ast.ReturnStmt)
	if !ok || len(r.Results) != 1 {
		return nil
	}
	return r.Results[0]
}

// exprInline replaces calls of single-return functions inside e by their result expression.
func (n *N) exprInline(e ast.Expr, stack map[*types.Func]bool, depth int) ast.Expr {
	if e == nil || depth > 4 {
		return e
	}
	repl := map[ast.Node]ast.Node{}
	ast.Inspect(e, func(m ast.Node) bool {
		if _, ok := m.(*ast.FuncLit); ok {
			return false
		}
		call, ok := m.(*ast.CallExpr)
		if !ok {
			return true
		}
		fn, fd := n.callee(call)
		if fn == nil || stack[fn] || n.budget <= 0 {
			return true
		}
		r := singleReturn(fd)
		if r == nil {
			return true
		}
		subst, pre, ok := n.bind(call, fn, fd)
		if !ok || len(pre) > 0 {
			return true
		}
		n.budget--
		n.Inlined[fn.Name()]++
		c := &cloner{n: n, from: n.infos[fn], subst: subst}
		ne := c.node(r).(ast.Expr)
		stack[fn] = true
		ne = n.exprInline(ne, stack, depth+1)
		delete(stack, fn)
		repl[call] = n.wrap(ne)
		return false
	})
	if len(repl) == 0 {
		return e
	}
	c := &cloner{n: n, from: n.Info, repl: repl}
	return c.node(e).(ast.Expr)
}

// inlineIn: s is a simple statement; the first call of an inlinable function in
// it is replaced by the function's body.
func (n *N) inlineIn(s ast.Stmt, stack map[*types.Func]bool, depth int) ([]ast.Stmt, bool) {
	if depth > 4 || n.budget <= 0 {
		return nil, false
	}
	// expression-level first
	changed := false
	rewrite := func(e ast.Expr) ast.Expr {
		ne := n.exprInline(e, stack, depth)
		if ne != e {
			changed = true
		}
		return ne
	}
	switch x := s.(type) {
	case *ast.ExprStmt:
		// a statement-level call of a single-return function has no effect worth keeping apart from its arguments: leave to the general case
		if call, ok := x.X.(*ast.CallExpr); ok {
			for i, a := range call.Args {
				call.Args[i] = rewrite(a)
			}
		} else {
			x.X = rewrite(x.X)
		}
	case *ast.AssignStmt:
		for i, r := range x.Rhs {
			x.Rhs[i] = rewrite(r)
		}
	case *ast.ReturnStmt:
		for i, r := range x.Results {
			x.Results[i] = rewrite(r)
		}
	case *ast.DeclStmt:
		if gd, ok := x.Decl.(*ast.GenDecl); ok {
			for _, sp := range gd.Specs {
				if vs, ok := sp.(*ast.ValueSpec); ok {
					for i, v := range vs.Values {
						vs.Values[i] = rewrite(v)
					}
				}
			}
		}
	}
	// statement-level: find a call to a multi-statement function
	var target *ast.CallExpr
	var tfn *types.Func
	var tfd *ast.FuncDecl
	ast.Inspect(s, func(m ast.Node) bool {
		if target != nil {
			return false
		}
		if _, ok := m.(*ast.FuncLit); ok {
			return false
		}
		if call, ok := m.(*ast.CallExpr); ok {
			// innermost first
			for _, a := range call.Args {
				ast.Inspect(a, func(k ast.Node) bool {
					if target != nil {
						return false
					}
					if c2, ok := k.(*ast.CallExpr); ok {
						if fn, fd := n.callee(c2); fn != nil && !stack[fn] && inlinable(fd) {
							target, tfn, tfd = c2, fn, fd
							return false
						}
					}
					return true
				})
			}
			if target != nil {
				return false
			}
			if fn, fd := n.callee(call); fn != nil && !stack[fn] && inlinable(fd) {
				target, tfn, tfd = call, fn, fd
				return false
			}
		}
		return true
	})
	if target == nil {
		if changed {
			return []ast.Stmt{s}, true
		}
		return nil, false
	}
	subst, pre, ok := n.bind(target, tfn, tfd)
	if !ok {
		if changed {
			return []ast.Stmt{s}, true
		}
		return nil, false
	}
	n.budget--
	n.Inlined[tfn.Name()]++
	c := &cloner{n: n, from: n.infos[tfn], subst: subst}
	body := c.node(tfd.Body).(*ast.BlockStmt)
	es, isExprStmt := s.(*ast.ExprStmt)
	void := isExprStmt && es.X == ast.Expr(target)
	leaf := func(results []ast.Expr) []ast.Stmt {
		if void {
			return nil
		}
		return []ast.Stmt{n.withResult(s, target, results)}
	}
	// tagless switches of the callee become if chains before returns are moved to the leaves
	body.List = n.desugarSwitches(body.List)
	list := retToLeaf(body.List, leaf, n)
	stack[tfn] = true
	list = n.stmts(append(pre, list...), stack, depth+1)
	delete(stack, tfn)
	return list, true
}

func (n *N) desugarSwitches(list []ast.Stmt) []ast.Stmt {
	var out []ast.Stmt
	for _, s := range list {
		switch x := s.(type) {
		case *ast.SwitchStmt:
			if r, ok := n.switchToIf(x); ok {
				out = append(out, n.desugarSwitches(r)...)
				continue
			}
		case *ast.IfStmt:
			x.Body.List = n.desugarSwitches(x.Body.List)
			if e, ok := x.Else.(*ast.BlockStmt); ok {
				e.List = n.desugarSwitches(e.List)
			} else if e, ok := x.Else.(*ast.IfStmt); ok {
				r := n.desugarSwitches([]ast.Stmt{e})
				if len(r) == 1 {
					x.Else = r[0]
				} else {
					x.Else = &ast.BlockStmt{List: r}
				}
			}
		case *ast.BlockStmt:
			x.List = n.desugarSwitches(x.List)
		}
		out = append(out, s)
	}
	return out
}

// withResult: a copy of s in which call is replaced by the returned value(s).
func (n *N) withResult(s ast.Stmt, call *ast.CallExpr, results []ast.Expr) ast.Stmt {
	if as, ok := s.(*ast.AssignStmt); ok && len(as.Rhs) == 1 && as.Rhs[0] == ast.Expr(call) && len(results) != 1 {
		c := &cloner{n: n, from: n.Info}
		cp := c.node(as).(*ast.AssignStmt)
		cp.Rhs = results
		return cp
	}
	if rs, ok := s.(*ast.ReturnStmt); ok && len(rs.Results) == 1 && rs.Results[0] == ast.Expr(call) && len(results) != 1 {
		return &ast.ReturnStmt{Return: rs.Return, Results: results}
	}
	var r ast.Expr
	if len(results) == 1 {
		r = n.wrap(results[0])
	} else {
		return s
	}
	c := &cloner{n: n, from: n.Info, repl: map[ast.Node]ast.Node{call: r}}
	return c.node(s).(ast.Stmt)
}

func terminates(list []ast.Stmt) bool {
	if len(list) == 0 {
		return false
	}
	switch x := list[len(list)-1].(type) {
	case *ast.ReturnStmt:
		return true
	case *ast.BlockStmt:
		return terminates(x.List)
	case *ast.IfStmt:
		if x.Else == nil {
			return false
		}
		return terminates(x.Body.List) && terminates([]ast.Stmt{x.Else})
	case *ast.ExprStmt:
		if c, ok := x.X.(*ast.CallExpr); ok {
			if id, ok := c.Fun.(*ast.Ident); ok && id.Name == "panic" {
				return true
			}
		}
	}
	return false
}

func hasReturn(s ast.Stmt) bool {
	found := false
	ast.Inspect(s, func(m ast.Node) bool {
		switch m.(type) {
		case *ast.FuncLit:
			return false
		case *ast.ReturnStmt:
			found = true
		}
		return !found
	})
	return found
}

// retToLeaf moves the statements that follow a conditional return into the
// other branch and replaces every return by leaf(results).
func retToLeaf(list []ast.Stmt, leaf func([]ast.Expr) []ast.Stmt, n *N) []ast.Stmt {
	var out []ast.Stmt
	for i, s := range list {
		switch x := s.(type) {
		case *ast.ReturnStmt:
			return append(out, leaf(x.Results)...)
		case *ast.BlockStmt:
			if hasReturn(x) {
				rest := append(append([]ast.Stmt{}, x.List...), list[i+1:]...)
				return append(out, retToLeaf(rest, leaf, n)...)
			}
		case *ast.IfStmt:
			if hasReturn(x) {
				rest := list[i+1:]
				c := &cloner{n: n, from: n.Info}
				thenL := append([]ast.Stmt{}, x.Body.List...)
				if !terminates(thenL) {
					for _, r := range rest {
						thenL = append(thenL, c.node(r).(ast.Stmt))
					}
				}
				var elseL []ast.Stmt
				switch e := x.Else.(type) {
				case *ast.BlockStmt:
					elseL = append(elseL, e.List...)
				case *ast.IfStmt:
					elseL = append(elseL, e)
				}
				if !terminates(elseL) {
					elseL = append(elseL, rest...)
				}
				ni := &ast.IfStmt{If: x.If, Init: x.Init, Cond: x.Cond, Body: &ast.BlockStmt{List: retToLeaf(thenL, leaf, n)}}
				el := retToLeaf(elseL, leaf, n)
				if len(el) > 0 {
					ni.Else = &ast.BlockStmt{List: el}
				}
				return append(out, ni)
			}
		}
		out = append(out, s)
	}
	return append(out, leaf(nil)...)
}

// ---- copy propagation ----------------------------------------------------------------------------

func (n *N) assignCounts(list []ast.Stmt) map[types.Object]int {
	cnt := map[types.Object]int{}
	n.fieldAssign = map[types.Object][]token.Pos{}
	mark := func(e ast.Expr) {
		for {
			switch y := e.(type) {
			case *ast.ParenExpr:
				e = y.X
				continue
			case *ast.Ident:
				if o := n.Info.Defs[y]; o != nil {
					cnt[o]++
				} else if o := n.Info.Uses[y]; o != nil {
					cnt[o]++
				}
			case *ast.SelectorExpr:
				// x.f = …: the field object counts (whatever x is: aliases are not tracked)
				if sel := n.Info.Selections[y]; sel != nil && sel.Kind() == types.FieldVal {
					cnt[sel.Obj()]++
					n.fieldAssign[sel.Obj()] = append(n.fieldAssign[sel.Obj()], y.Pos())
				}
			case *ast.IndexExpr:
				e = y.X // x.f[i] = …: x.f changes as far as readers of it are concerned
				continue
			case *ast.StarExpr:
				e = y.X
				continue
			}
			return
		}
	}
	for _, s := range list {
		ast.Inspect(s, func(m ast.Node) bool {
			switch y := m.(type) {
			case *ast.AssignStmt:
				for _, l := range y.Lhs {
					mark(l)
				}
			case *ast.IncDecStmt:
				mark(y.X)
			case *ast.UnaryExpr:
				if y.Op == token.AND {
					mark(y.X)
					cnt[n.objOf(y.X)] += 2
				}
			case *ast.RangeStmt:
				if y.Key != nil {
					mark(y.Key)
					cnt[n.objOf(y.Key)] += 2
				}
				if y.Value != nil {
					mark(y.Value)
					cnt[n.objOf(y.Value)] += 2
				}
			case *ast.ValueSpec:
				for _, nm := range y.Names {
					mark(nm)
				}
			}
			return true
		})
	}
	return cnt
}

func (n *N) objOf(e ast.Expr) types.Object {
	for {
		switch y := e.(type) {
		case *ast.ParenExpr:
			e = y.X
			continue
		case *ast.Ident:
			if o := n.Info.Defs[y]; o != nil {
				return o
			}
			return n.Info.Uses[y]
		}
		return nil
	}
}

// pure: e reads only things that do not change while the function runs, as far
// as the function itself is concerned: constants, parameters and locals assigned
// once, fields and elements reached from them.
func (n *N) pure(e ast.Expr, cnt map[types.Object]int) bool { return n.pureAt(e, cnt, token.NoPos) }

// pureAt: as pure, for a definition at position at: a field the body assigns only BEFORE the
// definition (in source order, inside the function itself and outside any loop — definitions in loops
// are never propagated) still has the defined value at every later use.
func (n *N) pureAt(e ast.Expr, cnt map[types.Object]int, at token.Pos) bool {
	ok := true
	ast.Inspect(e, func(m ast.Node) bool {
		switch y := m.(type) {
		case *ast.FuncLit:
			ok = false
		case *ast.SelectorExpr:
			// a field the body itself assigns (p.off = …, p.off++) is not stable: i := p.off; p.off = i+1; use(i)
			if sel := n.Info.Selections[y]; sel != nil && sel.Kind() == types.FieldVal {
				if cnt[sel.Obj()] > 0 {
					stable := at.IsValid() && at >= n.lo && at < n.hi
					for _, p := range n.fieldAssign[sel.Obj()] {
						if !(p >= n.lo && p < n.hi && p < at) {
							stable = false
						}
					}
					if !stable || len(n.fieldAssign[sel.Obj()]) != cnt[sel.Obj()] {
						ok = false
					}
				}
			}
		case *ast.CallExpr:
			if tv, isT := n.Info.Types[y.Fun]; isT && tv.IsType() {
				return true
			}
			if id, isId := y.Fun.(*ast.Ident); isId && (id.Name == "len" || id.Name == "cap") {
				if _, isB := n.Info.Uses[id].(*types.Builtin); isB {
					return true
				}
			}
			if fn, isFn := typeutil.Callee(n.Info, y).(*types.Func); isFn && fn.Pkg() != nil {
				sig := fn.Type().(*types.Signature)
				switch fn.Pkg().Path() {
				case "strings", "bytes", "strconv", "unicode", "unicode/utf8":
					if sig.Recv() == nil {
						return true // package-level functions of these packages have no side effects
					}
				}
			}
			ok = false
		case *ast.UnaryExpr:
			if y.Op == token.AND || y.Op == token.ARROW {
				ok = false
			}
		case *ast.CompositeLit:
			ok = false
		case *ast.Ident:
			if o := n.Info.Uses[y]; o != nil {
				if v, isVar := o.(*types.Var); isVar && !v.IsField() && v.Parent() != nil && v.Parent() != v.Pkg().Scope() && cnt[o] > 1 {
					ok = false
				}
			}
		}
		return ok
	})
	return ok
}

func (n *N) copyProp(list []ast.Stmt) []ast.Stmt {
	for round := 0; round < 8; round++ {
		cnt := n.assignCounts(list)
		subst := map[types.Object]ast.Expr{}
		drop := map[ast.Stmt]bool{}
		var scan func(l []ast.Stmt)
		scan = func(l []ast.Stmt) {
			for _, s := range l {
				switch x := s.(type) {
				case *ast.AssignStmt:
					if x.Tok == token.DEFINE && len(x.Lhs) == 1 && len(x.Rhs) == 1 {
						id, ok := x.Lhs[0].(*ast.Ident)
						if !ok || id.Name == "_" {
							continue
						}
						o := n.Info.Defs[id]
						if o == nil || cnt[o] != 1 {
							continue
						}
						if _, isTA := x.Rhs[0].(*ast.TypeAssertExpr); isTA && n.Opt.KeepTypeAssertLocals {
							continue
						}
						if n.pureAt(x.Rhs[0], cnt, x.Pos()) {
							subst[o] = x.Rhs[0]
							drop[s] = true
						}
					}
				case *ast.BlockStmt:
					scan(x.List)
				case *ast.IfStmt:
					scan(x.Body.List)
					if x.Else != nil {
						scan([]ast.Stmt{x.Else})
					}
				case *ast.ForStmt:
					// a definition inside a loop is executed many times: its operands may change between iterations; keep it
				case *ast.RangeStmt:
				case *ast.SwitchStmt:
					for _, c := range x.Body.List {
						scan(c.(*ast.CaseClause).Body)
					}
				case *ast.TypeSwitchStmt:
					for _, c := range x.Body.List {
						scan(c.(*ast.CaseClause).Body)
					}
				}
			}
		}
		scan(list)
		if len(subst) == 0 {
			return list
		}
		// one definition at a time keeps substitutions of substitutions simple
		var first types.Object
		var firstStmt ast.Stmt
		for s := range drop {
			o := n.Info.Defs[s.(*ast.AssignStmt).Lhs[0].(*ast.Ident)]
			if firstStmt == nil || s.Pos() < firstStmt.Pos() {
				first, firstStmt = o, s
			}
		}
		c := &cloner{n: n, from: n.Info, subst: map[types.Object]ast.Expr{first: subst[first]}}
		list = n.dropStmt(list, firstStmt)
		blk := c.node(&ast.BlockStmt{List: list}).(*ast.BlockStmt)
		list = blk.List
	}
	return list
}

func (n *N) dropStmt(list []ast.Stmt, d ast.Stmt) []ast.Stmt {
	var out []ast.Stmt
	for _, s := range list {
		if s == d {
			continue
		}
		switch x := s.(type) {
		case *ast.BlockStmt:
			x.List = n.dropStmt(x.List, d)
		case *ast.IfStmt:
			x.Body.List = n.dropStmt(x.Body.List, d)
			if e, ok := x.Else.(*ast.BlockStmt); ok {
				e.List = n.dropStmt(e.List, d)
			} else if e, ok := x.Else.(*ast.IfStmt); ok {
				r := n.dropStmt([]ast.Stmt{e}, d)
				if len(r) == 1 {
					x.Else = r[0]
				}
			}
		case *ast.SwitchStmt:
			for _, c := range x.Body.List {
				cc := c.(*ast.CaseClause)
				cc.Body = n.dropStmt(cc.Body, d)
			}
		case *ast.TypeSwitchStmt:
			for _, c := range x.Body.List {
				cc := c.(*ast.CaseClause)
				cc.Body = n.dropStmt(cc.Body, d)
			}
		}
		out = append(out, s)
	}
	return out
}

// ---- loops ---------------------------------------------------------------------------------------

// loops rewrites `for i := range L {… L[i] …}` and `for i := 0; i < len(L); i++ {… L[i] …}`
// (i used for nothing else) into `for _, v := range L {… v …}`.
func (n *N) loops(list []ast.Stmt) []ast.Stmt {
	var out []ast.Stmt
	for _, s := range list {
		switch x := s.(type) {
		case *ast.BlockStmt:
			x.List = n.loops(x.List)
		case *ast.IfStmt:
			x.Body.List = n.loops(x.Body.List)
			if x.Else != nil {
				r := n.loops([]ast.Stmt{x.Else})
				x.Else = r[0]
			}
		case *ast.SwitchStmt:
			for _, c := range x.Body.List {
				cc := c.(*ast.CaseClause)
				cc.Body = n.loops(cc.Body)
			}
		case *ast.TypeSwitchStmt:
			for _, c := range x.Body.List {
				cc := c.(*ast.CaseClause)
				cc.Body = n.loops(cc.Body)
			}
		case *ast.RangeStmt:
			x.Body.List = n.loops(x.Body.List)
			if un := n.unrollTable(x, out); un != nil {
				n.rewrote = true
				out = append(out[:len(out)-1], un...)
				continue
			}
			if x.Value == nil && x.Key != nil && x.Tok == token.DEFINE {
				if r := n.indexToRange(x.Key, x.X, x.Body, x); r != nil {
					out = append(out, r)
					continue
				}
			}
		case *ast.ForStmt:
			x.Body.List = n.loops(x.Body.List)
			if r := n.forToRange(x); r != nil {
				out = append(out, r)
				continue
			}
			if r := n.headTailToRange(x); r != nil {
				n.rewrote = true
				// `L := n.List` right in front of the loop (the parameter of an inlined helper): L was only there to
				// be consumed, the loop ranges over what it was set to
				if rs, ok := r.(*ast.RangeStmt); ok && len(out) > 0 {
					if as, ok := out[len(out)-1].(*ast.AssignStmt); ok && len(as.Lhs) == 1 && len(as.Rhs) == 1 && n.objOf(as.Lhs[0]) != nil && n.objOf(as.Lhs[0]) == n.objOf(rs.X) && simpleArg(as.Rhs[0]) {
						rs.X = as.Rhs[0]
						out = out[:len(out)-1]
					}
				}
				out = append(out, r)
				continue
			}
		}
		out = append(out, s)
	}
	return out
}

// unrollTable: `tab := [...]struct{…}{{a1, b1}, {a2, b2}}; for _, f := range tab { … f.x … f.y … }` with tab used
// for nothing else and the body free of break/continue/closures is the body once per row with the row's
// expressions in place of f.x, f.y - the straight-line code a table-driven loop was made from. prev is the
// statement list so far; its last statement must be the definition of tab.
func (n *N) unrollTable(x *ast.RangeStmt, prev []ast.Stmt) []ast.Stmt {
	if len(prev) == 0 || x.Tok != token.DEFINE || x.Value == nil || n.root == nil {
		return nil
	}
	if x.Key != nil {
		if id, ok := x.Key.(*ast.Ident); !ok || id.Name != "_" {
			return nil
		}
	}
	tid, ok := unparenExpr(x.X).(*ast.Ident)
	if !ok {
		return nil
	}
	to := n.objOf(tid)
	def, ok := prev[len(prev)-1].(*ast.AssignStmt)
	if !ok || def.Tok != token.DEFINE || len(def.Lhs) != 1 || len(def.Rhs) != 1 || to == nil || n.objOf(def.Lhs[0]) != to {
		return nil
	}
	lit, ok := unparenExpr(def.Rhs[0]).(*ast.CompositeLit)
	if !ok || len(lit.Elts) == 0 || len(lit.Elts) > 16 {
		return nil
	}
	var elemT types.Type
	if tv, ok := n.Info.Types[lit]; ok && tv.Type != nil {
		switch u := tv.Type.Underlying().(type) {
		case *types.Array:
			elemT = u.Elem()
		case *types.Slice:
			elemT = u.Elem()
		}
	}
	if elemT == nil {
		return nil
	}
	st, ok := elemT.Underlying().(*types.Struct)
	if !ok {
		return nil
	}
	vo := n.objOf(x.Value)
	if vo == nil {
		return nil
	}
	// the table is used by this loop only
	usesT := 0
	ast.Inspect(n.root, func(m ast.Node) bool {
		if id, ok := m.(*ast.Ident); ok && n.Info.Uses[id] == to {
			usesT++
		}
		return true
	})
	if usesT != 1 {
		return nil
	}
	// the body reads the row through its fields only; no jumps, no closures, no writes to the row
	type use struct {
		sel   *ast.SelectorExpr
		field string
	}
	var uses []use
	bad := false
	selOf := map[*ast.Ident]bool{}
	ast.Inspect(x.Body, func(m ast.Node) bool {
		switch y := m.(type) {
		case *ast.SelectorExpr:
			if id, ok := y.X.(*ast.Ident); ok && n.Info.Uses[id] == vo {
				uses = append(uses, use{y, y.Sel.Name})
				selOf[id] = true
			}
		case *ast.BranchStmt, *ast.FuncLit, *ast.ReturnStmt, *ast.DeferStmt, *ast.GoStmt:
			bad = true
		case *ast.AssignStmt:
			// the rows were computed before the loop: a body that assigns anything but new locals could change
			// what a later row's expressions read
			if y.Tok != token.DEFINE {
				bad = true
			}
		case *ast.IncDecStmt:
			bad = true
		case *ast.UnaryExpr:
			if y.Op == token.AND {
				bad = true
			}
		}
		return true
	})
	ast.Inspect(x.Body, func(m ast.Node) bool {
		if id, ok := m.(*ast.Ident); ok && n.Info.Uses[id] == vo && !selOf[id] {
			bad = true
		}
		return true
	})
	if bad || len(uses) == 0 {
		return nil
	}
	var out []ast.Stmt
	for _, el := range lit.Elts {
		row, ok := el.(*ast.CompositeLit)
		if !ok {
			return nil
		}
		vals := map[string]ast.Expr{}
		for i, fe := range row.Elts {
			if kv, ok := fe.(*ast.KeyValueExpr); ok {
				id, ok := kv.Key.(*ast.Ident)
				if !ok {
					return nil
				}
				vals[id.Name] = kv.Value
				continue
			}
			if i >= st.NumFields() {
				return nil
			}
			vals[st.Field(i).Name()] = fe
		}
		repl := map[ast.Node]ast.Node{}
		for _, u := range uses {
			v, ok := vals[u.field]
			if !ok || !simpleValue(n, v) {
				return nil
			}
			repl[u.sel] = v
		}
		c := &cloner{n: n, from: n.Info, repl: repl}
		nb := c.node(x.Body).(*ast.BlockStmt)
		out = append(out, nb.List...)
	}
	return out
}

// simpleValue: a constant or a plain field path - an expression whose value does not depend on when it is read
// within the loop and that has no effect.
func simpleValue(n *N, e ast.Expr) bool {
	if tv, ok := n.Info.Types[e]; ok && tv.Value != nil {
		return true
	}
	return simpleArg(e)
}

// headTailToRange rewrites `for ; len(L) > 0; L = L[1:] {… L[0] …}` - the list consumed from the front -
// into `for _, v := range L {… v …}`, when L is a plain local or parameter that the body uses only as L[0]
// and that nothing reads after the loop (it is empty there; a range loop would leave it whole).
func (n *N) headTailToRange(x *ast.ForStmt) ast.Stmt {
	if x.Init != nil || x.Cond == nil || x.Post == nil {
		return nil
	}
	be, ok := unparenExpr(x.Cond).(*ast.BinaryExpr)
	if !ok {
		return nil
	}
	lenArg := func(e ast.Expr) ast.Expr {
		call, ok := unparenExpr(e).(*ast.CallExpr)
		if !ok || len(call.Args) != 1 {
			return nil
		}
		if id, ok := call.Fun.(*ast.Ident); !ok || id.Name != "len" {
			return nil
		}
		return call.Args[0]
	}
	isZero := func(e ast.Expr) bool {
		tv, ok := n.Info.Types[e]
		return ok && tv.Value != nil && tv.Value.String() == "0"
	}
	var coll ast.Expr
	switch {
	case (be.Op == token.GTR || be.Op == token.NEQ) && isZero(be.Y):
		coll = lenArg(be.X)
	case (be.Op == token.LSS || be.Op == token.NEQ) && isZero(be.X):
		coll = lenArg(be.Y)
	}
	if coll == nil {
		return nil
	}
	lid, ok := unparenExpr(coll).(*ast.Ident)
	if !ok {
		return nil
	}
	lo := n.objOf(lid)
	lv, isVar := lo.(*types.Var)
	if !isVar || lv.IsField() || lv.Parent() == nil || lv.Parent() == lv.Pkg().Scope() {
		return nil
	}
	if _, isSlice := lv.Type().Underlying().(*types.Slice); !isSlice {
		return nil
	}
	// post: L = L[1:]
	as, ok := x.Post.(*ast.AssignStmt)
	if !ok || as.Tok != token.ASSIGN || len(as.Lhs) != 1 || len(as.Rhs) != 1 || n.objOf(as.Lhs[0]) != lo {
		return nil
	}
	sl, ok := unparenExpr(as.Rhs[0]).(*ast.SliceExpr)
	if !ok || sl.Max != nil || sl.Low == nil || n.objOf(sl.X) != lo {
		return nil
	}
	if tv, ok := n.Info.Types[sl.Low]; !ok || tv.Value == nil || tv.Value.String() != "1" {
		return nil
	}
	if sl.High != nil {
		if a := lenArg(sl.High); a == nil || n.objOf(a) != lo {
			return nil
		}
	}
	// body: L only as L[0], never assigned, no address taken, no closure
	repl := map[ast.Node]ast.Node{}
	var elemTV types.TypeAndValue
	uses, good := 0, 0
	bad := false
	ast.Inspect(x.Body, func(m ast.Node) bool {
		switch y := m.(type) {
		case *ast.IndexExpr:
			if n.objOf(y.X) == lo {
				if tv, ok := n.Info.Types[y.Index]; ok && tv.Value != nil && tv.Value.String() == "0" {
					good++
					repl[y] = nil
					elemTV = n.Info.Types[y]
				}
			}
		case *ast.Ident:
			if n.Info.Uses[y] == lo {
				uses++
			}
		case *ast.FuncLit:
			bad = true
		case *ast.BranchStmt:
			if y.Tok == token.CONTINUE || y.Label != nil {
				// continue runs the post statement in both forms; labels may leave to places that read L
				if y.Label != nil {
					bad = true
				}
			}
		}
		return true
	})
	if bad || good == 0 || uses != good {
		return nil
	}
	ast.Inspect(x.Body, func(m ast.Node) bool {
		switch y := m.(type) {
		case *ast.AssignStmt:
			for _, l := range y.Lhs {
				if _, isRepl := repl[l]; isRepl {
					bad = true
				}
			}
		case *ast.UnaryExpr:
			if _, isRepl := repl[y.X]; isRepl && y.Op == token.AND {
				bad = true
			}
		}
		return true
	})
	if bad {
		return nil
	}
	// nothing reads L after the loop
	if n.root == nil {
		return nil
	}
	passed, after, reinit := false, false, false
	ast.Inspect(n.root, func(m ast.Node) bool {
		if m == ast.Node(x) {
			passed = true
			return false
		}
		if !passed || reinit {
			return !reinit
		}
		if as, ok := m.(*ast.AssignStmt); ok && len(as.Lhs) == 1 && len(as.Rhs) == 1 && n.objOf(as.Lhs[0]) == lo {
			// L is given a new value before anything reads it (the next inlined copy of the same helper)
			mentions := false
			ast.Inspect(as.Rhs[0], func(k ast.Node) bool {
				if id, ok := k.(*ast.Ident); ok && n.Info.Uses[id] == lo {
					mentions = true
				}
				return true
			})
			if !mentions {
				reinit = true
				return false
			}
		}
		if id, ok := m.(*ast.Ident); ok && n.Info.Uses[id] == lo {
			after = true
		}
		return true
	})
	if !passed || after {
		return nil
	}
	v := types.NewVar(x.Pos(), n.Pkg.Types, "elem", elemTV.Type)
	def := &ast.Ident{NamePos: x.Pos(), Name: "elem"}
	n.Info.Defs[def] = v
	for k := range repl {
		id := &ast.Ident{NamePos: k.Pos(), Name: "elem"}
		n.Info.Uses[id] = v
		n.Info.Types[id] = elemTV
		repl[k] = id
	}
	c := &cloner{n: n, from: n.Info, repl: repl}
	nb := c.node(x.Body).(*ast.BlockStmt)
	us := &ast.Ident{NamePos: x.Pos(), Name: "_"}
	return &ast.RangeStmt{For: x.Pos(), Key: us, Value: def, Tok: token.DEFINE, X: coll, Body: nb}
}

func unparenExpr(e ast.Expr) ast.Expr {
	for {
		p, ok := e.(*ast.ParenExpr)
		if !ok {
			return e
		}
		e = p.X
	}
}

func (n *N) forToRange(x *ast.ForStmt) ast.Stmt {
	as, ok := x.Init.(*ast.AssignStmt)
	if !ok || as.Tok != token.DEFINE || len(as.Lhs) != 1 || len(as.Rhs) != 1 {
		return nil
	}
	if tv, ok := n.Info.Types[as.Rhs[0]]; !ok || tv.Value == nil || tv.Value.String() != "0" {
		return nil
	}
	post, ok := x.Post.(*ast.IncDecStmt)
	if !ok || post.Tok != token.INC || n.objOf(post.X) != n.objOf(as.Lhs[0]) {
		return nil
	}
	be, ok := x.Cond.(*ast.BinaryExpr)
	if !ok || n.objOf(be.X) != n.objOf(as.Lhs[0]) {
		return nil
	}
	bound := be.Y
	for {
		p, ok := bound.(*ast.ParenExpr)
		if !ok {
			break
		}
		bound = p.X
	}
	switch be.Op {
	case token.LSS, token.NEQ: // k < len(x), k != len(x)
	case token.LEQ: // k <= len(x)-1
		sub, ok := bound.(*ast.BinaryExpr)
		if !ok || sub.Op != token.SUB {
			return nil
		}
		if tv, ok := n.Info.Types[sub.Y]; !ok || tv.Value == nil || tv.Value.String() != "1" {
			return nil
		}
		bound = sub.X
	default:
		return nil
	}
	call, ok := bound.(*ast.CallExpr)
	if !ok || len(call.Args) != 1 {
		return nil
	}
	if id, ok := call.Fun.(*ast.Ident); !ok || id.Name != "len" {
		return nil
	}
	return n.indexToRange(as.Lhs[0], call.Args[0], x.Body, x)
}

func (n *N) indexToRange(key ast.Expr, coll ast.Expr, body *ast.BlockStmt, loop ast.Stmt) ast.Stmt {
	ko := n.objOf(key)
	if ko == nil || !simpleArg(coll) {
		return nil
	}
	cs := types.ExprString(coll)
	repl := map[ast.Node]ast.Node{}
	var elemTV types.TypeAndValue
	uses, good := 0, 0
	ast.Inspect(body, func(m ast.Node) bool {
		if ix, ok := m.(*ast.IndexExpr); ok {
			if n.objOf(ix.Index) == ko && types.ExprString(ix.X) == cs {
				good++
				repl[ix] = nil
				elemTV = n.Info.Types[ix]
			}
		}
		if id, ok := m.(*ast.Ident); ok && n.Info.Uses[id] == ko {
			uses++
		}
		return true
	})
	if good == 0 {
		return nil
	}
	keepKey := uses != good // the index is also used on its own (k < len(seps), k != last): keep it as the range key
	if keepKey {
		assigned := false
		ast.Inspect(body, func(m ast.Node) bool {
			switch y := m.(type) {
			case *ast.AssignStmt:
				for _, l := range y.Lhs {
					if n.objOf(l) == ko {
						assigned = true
					}
				}
			case *ast.IncDecStmt:
				if n.objOf(y.X) == ko {
					assigned = true
				}
			case *ast.UnaryExpr:
				if y.Op == token.AND && n.objOf(y.X) == ko {
					assigned = true
				}
			}
			return true
		})
		if assigned {
			return nil
		}
	}
	// the element must not be assigned through the index
	bad := false
	ast.Inspect(body, func(m ast.Node) bool {
		switch y := m.(type) {
		case *ast.AssignStmt:
			for _, l := range y.Lhs {
				if _, isRepl := repl[l]; isRepl {
					bad = true
				}
			}
		case *ast.UnaryExpr:
			if _, isRepl := repl[y.X]; isRepl && y.Op == token.AND {
				bad = true
			}
		}
		return true
	})
	if bad {
		return nil
	}
	v := types.NewVar(loop.Pos(), n.Pkg.Types, "elem", elemTV.Type)
	def := &ast.Ident{NamePos: loop.Pos(), Name: "elem"}
	n.Info.Defs[def] = v
	for k := range repl {
		id := &ast.Ident{NamePos: k.Pos(), Name: "elem"}
		n.Info.Uses[id] = v
		n.Info.Types[id] = elemTV
		repl[k] = id
	}
	c := &cloner{n: n, from: n.Info, repl: repl}
	nb := c.node(body).(*ast.BlockStmt)
	us := &ast.Ident{NamePos: loop.Pos(), Name: "_"}
	if keepKey {
		us = &ast.Ident{NamePos: loop.Pos(), Name: ko.Name()}
		n.Info.Defs[us] = ko
	}
	return &ast.RangeStmt{For: loop.Pos(), Key: us, Value: def, Tok: token.DEFINE, X: coll, Body: nb}
}
