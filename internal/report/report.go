// Package report holds the obligation model shared by every rule, the known
// findings file, and the evidence / replay writers (DESIGN.md G3, G4, G6).
package report

import (
	"encoding/json"
	"fmt"
	"os"
	"path/filepath"
	"sort"
	"strings"
	"time"
)

type Status string

const (
	Discharged Status = "discharged"
	Violated   Status = "violated"
	Undecided  Status = "undecided"
)

// Obligation is one decided instance of a rule.
type Obligation struct {
	Rule   string   `json:"rule"`
	Key    string   `json:"key"` // rule/construct, never a line number
	Status Status   `json:"status"`
	Pos    string   `json:"pos,omitempty"` // file:line, for the reader only
	Func   string   `json:"func,omitempty"`
	Detail string   `json:"detail,omitempty"`
	Path   []string `json:"path,omitempty"`
}

// RuleResult is what one rule produced on one program.
type RuleResult struct {
	Rule      string         `json:"rule"`
	Instances map[string]int `json:"instances"` // measured instance counts, compared with floors
	Units     []string       `json:"units,omitempty"`
	Obls      []Obligation   `json:"-"`
	Note      string         `json:"note,omitempty"`
}

func NewResult(rule string) *RuleResult {
	return &RuleResult{Rule: rule, Instances: map[string]int{}}
}

func (r *RuleResult) add(st Status, key, pos, fn, detail string, path ...string) {
	r.Obls = append(r.Obls, Obligation{Rule: r.Rule, Key: r.Rule + "/" + key, Status: st, Pos: pos, Func: fn, Detail: detail, Path: path})
}
func (r *RuleResult) OK(key, pos, fn, detail string) { r.add(Discharged, key, pos, fn, detail) }
func (r *RuleResult) Bad(key, pos, fn, detail string, path ...string) {
	r.add(Violated, key, pos, fn, detail, path...)
}
func (r *RuleResult) Unknown(key, pos, fn, detail string) { r.add(Undecided, key, pos, fn, detail) }
func (r *RuleResult) Count(what string, n int)            { r.Instances[what] += n }

// Check adds a discharged or violated obligation depending on ok.
func (r *RuleResult) Check(ok bool, key, pos, fn, okDetail, badDetail string) {
	if ok {
		r.OK(key, pos, fn, okDetail)
	} else {
		r.Bad(key, pos, fn, badDetail)
	}
}

// Finding is an entry of known_findings.json.
type Finding struct {
	Key        string   `json:"key"`
	Properties []string `json:"properties"`
	Status     string   `json:"status"` // "known" or "fixed"
	What       string   `json:"what"`
	Input      string   `json:"input,omitempty"`
	Commit     string   `json:"commit,omitempty"`
	Line       string   `json:"line,omitempty"` // for fixed: the "fixed: property=<id> <commit> <what>" line
}

type FindingsFile struct {
	Comment  string    `json:"comment"`
	Findings []Finding `json:"findings"`
}

func LoadFindings(path string) (*FindingsFile, error) {
	b, err := os.ReadFile(path)
	if err != nil {
		return nil, err
	}
	var f FindingsFile
	if err := json.Unmarshal(b, &f); err != nil {
		return nil, fmt.Errorf("%s: %v", path, err)
	}
	return &f, nil
}

func (f *FindingsFile) Known(prop, key string) *Finding {
	for i := range f.Findings {
		fd := &f.Findings[i]
		if fd.Status != "known" || fd.Key != key {
			continue
		}
		for _, p := range fd.Properties {
			if p == prop {
				return fd
			}
		}
	}
	return nil
}

// Floor is the minimum instance count a rule must find on /repo.
type Floor struct {
	Rule  string
	What  string
	Min   int
	Exact bool
}

type Run struct {
	Property string
	Tier     string
	Level    string
	Seed     int
	Start    time.Time
	VerifDir string
	RepoDir  string

	Results      []*RuleResult
	FixtureNotes []string
	FixtureFails []string
	Explanation  string
	Assumptions  []string
	TrustedBase  []string
	CheckerCmd   string
	Extra        map[string]interface{}
}

type outcome struct {
	total, discharged int
	violations        []Obligation // not known
	known             []Obligation
	knownWhat         map[string]*Finding
}

func (run *Run) evaluate(ff *FindingsFile, floors []Floor) outcome {
	var o outcome
	o.knownWhat = map[string]*Finding{}
	for _, r := range run.Results {
		for _, ob := range r.Obls {
			o.total++
			switch ob.Status {
			case Discharged:
				o.discharged++
			default:
				if fd := ff.Known(run.Property, ob.Key); fd != nil && ob.Status == Violated {
					o.known = append(o.known, ob)
					o.knownWhat[ob.Key] = fd
				} else {
					o.violations = append(o.violations, ob)
				}
			}
		}
	}
	// floors
	byRule := map[string]*RuleResult{}
	for _, r := range run.Results {
		byRule[r.Rule] = r
	}
	for _, fl := range floors {
		r := byRule[fl.Rule]
		n := 0
		if r != nil {
			n = r.Instances[fl.What]
		}
		// the same rule may have been applied to several parts of the program: the counts add up
		if r != nil {
			n = 0
			for _, q := range run.Results {
				if q.Rule == fl.Rule {
					n += q.Instances[fl.What]
				}
			}
		}
		o.total++
		if n < fl.Min {
			o.violations = append(o.violations, Obligation{Rule: fl.Rule, Key: fl.Rule + "/floor/" + fl.What, Status: Undecided,
				Detail: fmt.Sprintf("undecided:floor: rule %s found %d instances of %q, at least %d were confirmed by hand on the pinned tree; the rule no longer recognises the code it is meant to decide", fl.Rule, n, fl.What, fl.Min)})
		} else {
			o.discharged++
		}
	}
	for _, f := range run.FixtureFails {
		o.total++
		o.violations = append(o.violations, Obligation{Rule: "fixtures", Key: "fixtures/" + f, Status: Undecided, Detail: "undecided:fixture: the analyser gave a wrong answer on its own fixture: " + f})
	}
	return o
}

// Finish writes evidence and the replay file, prints the verdict lines and
// returns the process exit code.
func (run *Run) Finish(ff *FindingsFile, floors []Floor) int {
	o := run.evaluate(ff, floors)
	wall := time.Since(run.Start).Seconds()

	evDir := filepath.Join(run.VerifDir, "evidence")
	os.MkdirAll(evDir, 0o755)

	// samples: every violated/known one, plus a few discharged per rule
	var samples []interface{}
	for _, ob := range o.violations {
		samples = append(samples, ob)
	}
	for _, ob := range o.known {
		samples = append(samples, map[string]interface{}{"known_finding": o.knownWhat[ob.Key].What, "obligation": ob})
	}
	for _, r := range run.Results {
		n := 0
		for _, ob := range r.Obls {
			if ob.Status == Discharged {
				samples = append(samples, ob)
				n++
				if n >= 3 {
					break
				}
			}
		}
	}
	if len(samples) > 400 {
		samples = samples[:400]
	}
	perRule := map[string]interface{}{}
	var units []string
	distinct := map[string]bool{}
	for _, r := range run.Results {
		var d, v, u int
		for _, ob := range r.Obls {
			distinct[ob.Key] = true
			switch ob.Status {
			case Discharged:
				d++
			case Violated:
				v++
			default:
				u++
			}
		}
		perRule[r.Rule] = map[string]interface{}{"instances": r.Instances, "obligations": len(r.Obls), "discharged": d, "violated": v, "undecided": u, "note": r.Note}
		for _, un := range r.Units {
			units = append(units, r.Rule+": "+un)
		}
	}
	if len(units) > 600 {
		units = append(units[:600], fmt.Sprintf("… %d more", len(units)-600))
	}
	var knownKeys []string
	for _, ob := range o.known {
		knownKeys = append(knownKeys, ob.Key)
	}
	sort.Strings(knownKeys)
	cov := map[string]interface{}{
		"obligations":         o.total,
		"discharged":          o.discharged + len(o.known)*0,
		"known_findings":      knownKeys,
		"evaluations":         o.total,
		"distinct_nontrivial": len(distinct),
		"rule":                "one obligation per (rule, construct); distinct = distinct rule/construct keys; every obligation is decided from the source of /repo as found on disk at the start of the run",
		"samples":             samples,
		"per_rule":            perRule,
		"units":               units,
		"fixtures":            run.FixtureNotes,
		"explanation":         run.Explanation,
		"checker_cmd":         run.CheckerCmd,
		"trusted_base":        run.TrustedBase,
		"exhaustive":          true,
	}
	for k, v := range run.Extra {
		cov[k] = v
	}
	if run.Assumptions == nil {
		run.Assumptions = []string{}
	}
	if run.TrustedBase == nil {
		run.TrustedBase = []string{}
	}
	ev := map[string]interface{}{
		"property_id": run.Property,
		"tier":        run.Tier,
		"seed":        run.Seed,
		"level":       run.Level,
		"coverage":    cov,
		"assumptions": run.Assumptions,
		"wall_s":      wall,
		"violations":  len(o.violations),
	}
	writeJSON(filepath.Join(evDir, run.Property+".json"), ev)

	if os.Getenv("VERIF_DUMP") != "" { // development aid: list every obligation
		for _, r := range run.Results {
			for _, ob := range r.Obls {
				fmt.Printf("  [%s] %s @%s: %s\n", ob.Status, ob.Key, ob.Pos, ob.Detail)
			}
		}
	}
	for _, n := range run.FixtureNotes {
		fmt.Println("fixture:", n)
	}
	var rules []string
	for _, r := range run.Results {
		rules = append(rules, r.Rule)
	}
	sort.Strings(rules)
	for i, name := range rules {
		if i > 0 && rules[i-1] == name {
			continue
		}
		for _, r := range run.Results {
			if r.Rule != name {
				continue
			}
			var d int
			for _, ob := range r.Obls {
				if ob.Status == Discharged {
					d++
				}
			}
			var inst []string
			for k, v := range r.Instances {
				inst = append(inst, fmt.Sprintf("%s=%d", k, v))
			}
			sort.Strings(inst)
			fmt.Printf("rule %-28s obligations=%-5d discharged=%-5d instances: %s\n", r.Rule, len(r.Obls), d, strings.Join(inst, " "))
		}
	}
	seen := map[string]bool{}
	for _, ob := range o.known {
		if seen[ob.Key] {
			continue
		}
		seen[ob.Key] = true
		fd := o.knownWhat[ob.Key]
		fmt.Printf("KNOWN-FINDING: property=%s %s — %s (%s)\n", run.Property, ob.Key, fd.What, ob.Pos)
	}
	if len(o.violations) == 0 {
		fmt.Printf("OK property=%s tier=%s obligations=%d discharged=%d known=%d wall=%.1fs\n", run.Property, run.Tier, o.total, o.discharged, len(o.known), wall)
		return 0
	}
	repDir := filepath.Join(run.VerifDir, "replay")
	os.MkdirAll(repDir, 0o755)
	rep := filepath.Join(repDir, run.Property+".json")
	writeJSON(rep, map[string]interface{}{
		"property":   run.Property,
		"tier":       run.Tier,
		"repo":       run.RepoDir,
		"how":        "re-run the check; each entry names rule, construct key, file:line, function and reason",
		"violations": o.violations,
	})
	for _, ob := range o.violations {
		fmt.Printf("  %s %s at %s %s: %s\n", ob.Status, ob.Key, ob.Pos, ob.Func, ob.Detail)
		for _, p := range ob.Path {
			fmt.Printf("      path: %s\n", p)
		}
	}
	fmt.Printf("VIOLATION property=%s replay=%s\n", run.Property, rep)
	return 1
}

func writeJSON(path string, v interface{}) {
	b, err := json.MarshalIndent(v, "", " ")
	if err != nil {
		panic(err)
	}
	if err := os.WriteFile(path, append(b, '\n'), 0o644); err != nil {
		panic(err)
	}
}

// Merge appends the obligations of other to r, prefixing their construct keys.
func (r *RuleResult) Merge(other *RuleResult, prefix string) {
	for _, ob := range other.Obls {
		ob.Key = r.Rule + "/" + prefix + ob.Key[len(other.Rule)+1:]
		r.Obls = append(r.Obls, ob)
	}
}

// Rename gives the result (and the obligations it holds) another rule name: the same analysis applied to
// another part of the program, with its own floors.
func (r *RuleResult) Rename(rule string) {
	old := r.Rule
	r.Rule = rule
	for i := range r.Obls {
		r.Obls[i].Rule = rule
		if len(r.Obls[i].Key) > len(old) && r.Obls[i].Key[:len(old)+1] == old+"/" {
			r.Obls[i].Key = rule + r.Obls[i].Key[len(old):]
		}
	}
}
