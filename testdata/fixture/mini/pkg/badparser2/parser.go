package badparser2

import (
	"errors"

	"github.com/z7zmey/php-parser/internal/php5"
	"github.com/z7zmey/php-parser/internal/php7"
	"github.com/z7zmey/php-parser/internal/scanner"
	"github.com/z7zmey/php-parser/pkg/ast"
	"github.com/z7zmey/php-parser/pkg/conf"
	"github.com/z7zmey/php-parser/pkg/version"
)

var (
	ErrVersionOutOfRange = errors.New("the version is out of supported range")

	php5RangeStart = &version.Version{Major: 5}
	php5RangeEnd   = &version.Version{Major: 5, Minor: 6}
	php7RangeStart = &version.Version{Major: 7}
	php7RangeEnd   = &version.Version{Major: 7, Minor: 4}
)

type Parser interface {
	Parse() int
	GetRootNode() ast.Vertex
}

func Parse(src []byte, config conf.Config) (ast.Vertex, error) {
	var parser Parser
	lexer := scanner.NewLexer(src, config)
	if config.Version == nil {
		config.Version = php7RangeEnd
	}
	if config.Version.InRange(php7RangeStart, php7RangeEnd) {
		parser = php7.NewParser(lexer, config)
		parser.Parse()
		return parser.GetRootNode(), nil
	} else if config.Version.InRange(php5RangeStart, php5RangeEnd) {
		parser = php5.NewParser(lexer, config)
		parser.Parse()
		return parser.GetRootNode(), nil
	}
	return nil, ErrVersionOutOfRange
}
