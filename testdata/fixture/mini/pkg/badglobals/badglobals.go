// Package badglobals: fixture for no-global-writes, immutable-shared and
// no-nondeterminism (library code with shared mutable state).
package badglobals

import (
	"time"

	"github.com/z7zmey/php-parser/pkg/token"
	"github.com/z7zmey/php-parser/pkg/version"
)

var table = [...]int{1, 2, 3}
var names = []string{"a", "b"}
var counter int
var cache = map[string]int{}
var sharedPool = token.NewPool(8)
var scratch []byte
var defaultVersion = &version.Version{Major: 7, Minor: 4}

type Thing struct {
	pool *token.Pool
	v    *version.Version
}

// ok: reads only
func Look(i int) (int, string, int) { return table[i], names[i%2], len(cache) }

// ok: the version constant may escape, it is immutable
func NewThing() *Thing { return &Thing{pool: token.NewPool(8), v: defaultVersion} }

// bad: assigns a package-level variable
func Inc() int { counter++; return counter }

// bad: updates a package-level map
func Put(k string) { cache[k] = 1 }

// bad: a mutable object held by a package-level variable escapes into per-call state
func NewSharing() *Thing { return &Thing{pool: sharedPool} }

// bad: writes through a package-level slice
func Scribble() { names[0] = "x" }

// bad: appends to a package-level buffer
func Buffer(b byte) []byte { scratch = append(scratch, b); return scratch }

// bad (immutable-shared): writes a Version it did not allocate
func Bump(v *version.Version) { v.Minor++ }

// bad (no-nondeterminism): map iteration, goroutine, clock
func Keys() []string {
	var out []string
	for k := range cache {
		out = append(out, k)
	}
	return out
}

func Spawn(f func()) { go f() }

func Stamp() int64 { return time.Now().Unix() }
