package dumper

import (
	"github.com/z7zmey/php-parser/pkg/position"
	"github.com/z7zmey/php-parser/pkg/token"
	"io"
	"strconv"
	"strings"

	"github.com/z7zmey/php-parser/pkg/ast"
)

type Dumper struct {
	writer        io.Writer
	indent        int
	withTokens    bool
	withPositions bool
}

func NewDumper(writer io.Writer) *Dumper {
	return &Dumper{writer: writer}
}

func (v *Dumper) WithTokens() *Dumper {
	v.withTokens = true
	return v
}

func (v *Dumper) WithPositions() *Dumper {
	v.withPositions = true
	return v
}

func (v *Dumper) Dump(n ast.Vertex) {
	n.Accept(v)
}

func (v *Dumper) print(indent int, str string) {
	_, err := io.WriteString(v.writer, strings.Repeat("\t", indent))
	if err != nil {
		panic(err)
	}

	_, err = io.WriteString(v.writer, str)
	if err != nil {
		panic(err)
	}
}

func (v *Dumper) dumpVertex(key string, node ast.Vertex) {
	if node == nil {
		return
	}

	v.print(v.indent, key+": ")
	node.Accept(v)
}

func (v *Dumper) dumpVertexList(key string, list []ast.Vertex) {
	if list == nil {
		return
	}

	if len(list) == 0 {
		v.print(v.indent, key+": []ast.Vertex{},\n")
		return
	}

	v.print(v.indent, key+": []ast.Vertex{\n")
	v.indent++

	for _, nn := range list {
		v.print(v.indent, "")
		nn.Accept(v)
	}

	v.indent--
	v.print(v.indent, "},\n")
}

func (v *Dumper) dumpToken(key string, tok *token.Token) {
	if !v.withTokens {
		return
	}

	if tok == nil {
		return
	}

	if key == "" {
		v.print(v.indent, "{\n")
	} else {
		v.print(v.indent, key+": &token.Token{\n")
	}

	v.indent++

	if tok.ID > 0 {
		v.print(v.indent, "ID: token."+tok.ID.String()+",\n")
	}
	if tok.Value != nil {
		v.print(v.indent, "Val: []byte("+strconv.Quote(string(tok.Value))+"),\n")
	}
	v.dumpPosition(tok.Position)
	v.dumpTokenList("FreeFloating", tok.FreeFloating)

	v.indent--
	v.print(v.indent, "},\n")
}

func (v *Dumper) dumpTokenList(key string, list []*token.Token) {
	if !v.withTokens {
		return
	}

	if list == nil {
		return
	}

	if len(list) == 0 {
		v.print(v.indent, key+": []*token.Token{},\n")
		return
	}

	v.print(v.indent, key+": []*token.Token{\n")
	v.indent++

	for _, tok := range list {
		v.dumpToken("", tok)
	}

	v.indent--
	v.print(v.indent, "},\n")
}

func (v *Dumper) dumpPosition(pos *position.Position) {
	if !v.withPositions {
		return
	}

	if pos == nil {
		return
	}

	v.print(v.indent, "Position: &position.Position{\n")
	v.indent++

	v.print(v.indent, "StartLine: "+strconv.Itoa(pos.StartLine)+",\n")
	v.print(v.indent, "EndLine:   "+strconv.Itoa(pos.EndLine)+",\n")
	v.print(v.indent, "StartPos:  "+strconv.Itoa(pos.StartPos)+",\n")
	v.print(v.indent, "EndPos:    "+strconv.Itoa(pos.EndPos)+",\n")

	v.indent--
	v.print(v.indent, "},\n")
}

func (v *Dumper) dumpValue(key string, val []byte) {
	if val == nil {
		return
	}

	v.print(v.indent, key+": []byte("+strconv.Quote(string(val))+"),\n")

}

func (v *Dumper) Root(n *ast.Root) {
	v.print(0, "&ast.Root{\n")
	v.indent++

	v.dumpPosition(n.Position)
	v.dumpVertexList("Stmts", n.Stmts)
	v.dumpToken("EndTkn", n.EndTkn)

	v.indent--
	v.print(v.indent, "},\n")
}

func (v *Dumper) Leaf(n *ast.Leaf) {
	v.print(0, "&ast.Leaf{\n")
	v.indent++

	v.dumpPosition(n.Position)
	v.dumpToken("LeafTkn", n.LeafTkn)
	v.dumpValue("Val", n.Value)

	v.indent--
	v.print(v.indent, "},\n")
}

func (v *Dumper) Pair(n *ast.Pair) {
	v.print(0, "&ast.Pair{\n")
	v.indent++

	v.dumpPosition(n.Position)
	v.dumpVertex("Left", n.Left)
	v.dumpToken("OpTkn", n.OpTkn)
	v.dumpVertex("Right", n.Right)

	v.indent--
	v.print(v.indent, "},\n")
}

func (v *Dumper) List(n *ast.List) {
	v.print(0, "&ast.List{\n")
	v.indent++

	v.dumpPosition(n.Position)
	v.dumpToken("OpenTkn", n.OpenTkn)
	v.dumpVertexList("Items", n.Items)
	v.dumpTokenList("SeparatorTkns", n.SeparatorTkns)
	v.dumpToken("CloseTkn", n.CloseTkn)

	v.indent--
	v.print(v.indent, "},\n")
}

func (v *Dumper) Alt(n *ast.Alt) {
	v.print(0, "&ast.Alt{\n")
	v.indent++

	v.dumpPosition(n.Position)
	v.dumpToken("KeyTkn", n.KeyTkn)
	v.dumpToken("ColonTkn", n.ColonTkn)
	v.dumpVertex("Stmt", n.Stmt)
	v.dumpToken("EndTkn", n.EndTkn)

	v.indent--
	v.print(v.indent, "},\n")
}

func (v *Dumper) Block(n *ast.Block) {
	v.print(0, "&ast.Block{\n")
	v.indent++

	v.dumpPosition(n.Position)
	v.dumpToken("OpenTkn", n.OpenTkn)
	v.dumpVertexList("Stmts", n.Stmts)
	v.dumpToken("CloseTkn", n.CloseTkn)

	v.indent--
	v.print(v.indent, "},\n")
}

func (v *Dumper) B1(n *ast.B1) {
	v.print(0, "&ast.B1{\n")
	v.indent++

	v.dumpPosition(n.Position)
	v.dumpToken("ATkn", n.ATkn)
	v.dumpVertex("Y", n.X)
	v.dumpToken("BTkn", n.BTkn)
	v.dumpVertex("Y", n.Y)
	v.dumpVertexList("L", n.L)
	v.dumpTokenList("SepTkns", n.SepTkns)

	v.indent--
	v.print(v.indent, "},\n")
}

func (v *Dumper) B2(n *ast.B2) {
	v.print(0, "&ast.B2{\n")
	v.indent++

	v.dumpPosition(n.Position)
	v.dumpToken("ATkn", n.ATkn)
	v.dumpVertex("X", n.X)
	v.dumpVertex("Y", n.Y)
	v.dumpVertexList("L", n.L)
	v.dumpTokenList("SepTkns", n.SepTkns)

	v.indent--
	v.print(v.indent, "},\n")
}

func (v *Dumper) B3(n *ast.B3) {
	v.print(0, "&ast.B3{\n")
	v.indent++

	v.dumpPosition(n.Position)
	v.dumpToken("ATkn", n.ATkn)
	v.dumpVertex("X", n.X)
	v.dumpVertex("X", n.X)
	v.dumpToken("BTkn", n.BTkn)
	v.dumpVertex("Y", n.Y)
	v.dumpVertexList("L", n.L)
	v.dumpTokenList("SepTkns", n.SepTkns)

	v.indent--
	v.print(v.indent, "},\n")
}

func (v *Dumper) B4(n *ast.B4) {
	v.print(0, "&ast.B3{\n")
	v.indent++

	v.dumpPosition(n.Position)
	v.dumpToken("ATkn", n.ATkn)
	v.dumpVertex("X", n.X)
	v.dumpToken("BTkn", n.BTkn)
	v.dumpVertex("Y", n.Y)
	v.dumpVertexList("L", n.L)
	v.dumpTokenList("SepTkns", n.SepTkns)

	v.indent--
	v.print(v.indent, "},\n")
}

func (v *Dumper) B5(n *ast.B5) {
	v.print(0, "&ast.B5{\n")
	v.indent++

	v.dumpPosition(n.Position)
	v.dumpToken("ATkn", n.ATkn)
	v.dumpVertex("X", n.X)
	v.dumpToken("BTkn", n.BTkn)
	v.dumpVertex("Y", n.Y)
	v.dumpVertexList("L", n.L)
	v.dumpTokenList("SepTkns", n.SepTkns)

	v.indent--
}

func (v *Dumper) B6(n *ast.B6) {
	v.print(0, "&ast.B6{\n")
	v.indent++

	v.dumpToken("ATkn", n.ATkn)
	v.dumpVertex("X", n.X)
	v.dumpToken("BTkn", n.BTkn)
	v.dumpVertex("Y", n.Y)
	v.dumpVertexList("L", n.L)
	v.dumpTokenList("SepTkns", n.SepTkns)

	v.indent--
	v.print(v.indent, "},\n")
}

func (v *Dumper) B7(n *ast.B7) {
	v.print(0, "&ast.B7{\n")
	v.indent++

	v.dumpPosition(n.Position)
	v.dumpToken("ATkn", n.ATkn)
	v.dumpVertex("X", n.X)
	v.dumpToken("BTkn", n.BTkn)
	v.dumpVertex("Y", n.Y)
	v.dumpVertexList("L", n.L)
	v.dumpTokenList("SepTkns", n.SepTkns)

	v.indent--
	v.print(v.indent, "},\n")
}

func (v *Dumper) B8(n *ast.B8) {
	v.print(0, "&ast.B8{\n")
	v.indent++

	v.dumpPosition(n.Position)
	v.dumpToken("ATkn", n.ATkn)
	v.dumpVertex("X", n.X)
	v.dumpToken("BTkn", n.BTkn)
	v.dumpVertex("Y", n.Y)
	v.dumpVertexList("Ls", n.L)
	v.dumpTokenList("SepTkns", n.SepTkns)

	v.indent--
	v.print(v.indent, "},\n")
}

