package formatter

import (
	"github.com/z7zmey/php-parser/pkg/ast"
	"github.com/z7zmey/php-parser/pkg/token"
)

type formatter struct {
	freeFloating []*token.Token
	indent       int
}

func NewFormatter() *formatter { return &formatter{} }

func (f *formatter) addFreeFloating(id token.ID, val []byte) {
	f.freeFloating = append(f.freeFloating, &token.Token{ID: id, Value: val})
}

func (f *formatter) getFreeFloating() []*token.Token {
	ff := f.freeFloating
	f.freeFloating = nil
	return ff
}

func (f *formatter) newToken(id token.ID, val []byte) *token.Token {
	return &token.Token{ID: id, Value: val, FreeFloating: f.getFreeFloating()}
}

func (f *formatter) formatList(nodes []ast.Vertex, separator byte) []*token.Token {
	separatorTkns := make([]*token.Token, len(nodes)-1)
	for i, v := range nodes {
		v.Accept(f)
		if i != len(nodes)-1 {
			separatorTkns[i] = f.newToken(token.ID(separator), []byte{separator})
		}
	}
	return separatorTkns
}

func (f *formatter) formatStmts(list *[]ast.Vertex) {
	for _, stmt := range *list {
		f.addFreeFloating(token.T_WHITESPACE, []byte("\n"))
		stmt.Accept(f)
	}
}

func (f *formatter) Root(n *ast.Root) {
	f.formatStmts(&n.Stmts)
	n.EndTkn = nil
}

func (f *formatter) Leaf(n *ast.Leaf) {
	if n.LeafTkn == nil {
		n.LeafTkn = f.newToken(token.T_STRING, n.Value)
	} else {
		n.LeafTkn.FreeFloating = f.getFreeFloating()
	}
}

func (f *formatter) Pair(n *ast.Pair) {
	n.Left.Accept(f)
	f.addFreeFloating(token.T_WHITESPACE, []byte(" "))
	n.OpTkn = f.newToken(token.T_STRING, []byte("+"))
	f.addFreeFloating(token.T_WHITESPACE, []byte(" "))
	n.Right.Accept(f)
}

func (f *formatter) List(n *ast.List) {
	n.OpenTkn = f.newToken(token.T_STRING, []byte("["))
	n.SeparatorTkns = nil
	if len(n.Items) > 0 {
		n.SeparatorTkns = f.formatList(n.Items, ',')
	}
	n.CloseTkn = f.newToken(token.T_STRING, []byte("]"))
}

func (f *formatter) Alt(n *ast.Alt) {
	n.KeyTkn = f.newToken(token.T_STRING, []byte("while"))
	n.ColonTkn = f.newToken(token.T_STRING, []byte(":"))
	if n.Stmt != nil {
		n.Stmt.Accept(f)
	}
	n.EndTkn = f.newToken(token.T_STRING, []byte("endwhile"))
}

func (f *formatter) Block(n *ast.Block) {
	n.OpenTkn = f.newToken(token.T_STRING, []byte("{"))
	if len(n.Stmts) > 0 {
		f.formatStmts(&n.Stmts)
	}
	n.CloseTkn = f.newToken(token.T_STRING, []byte("}"))
}
func (f *formatter) B1(n *ast.B1) {
	n.ATkn = f.newToken(token.T_STRING, []byte("a"))
	if n.X != nil {
		n.X.Accept(f)
	}
	n.BTkn = f.newToken(token.T_STRING, []byte("b"))
	if n.Y != nil {
		n.Y.Accept(f)
	}
	n.SepTkns = nil
	if len(n.L) > 0 {
		n.SepTkns = f.formatList(n.L, ',')
	}
}

func (f *formatter) B2(n *ast.B2) {
	n.ATkn = f.newToken(token.T_STRING, []byte("a"))
	if n.X != nil {
		n.X.Accept(f)
	}
	n.BTkn = f.newToken(token.T_STRING, []byte("b"))
	if n.Y != nil {
		n.Y.Accept(f)
	}
	n.SepTkns = nil
	if len(n.L) > 0 {
		n.SepTkns = f.formatList(n.L, ',')
	}
}

func (f *formatter) B3(n *ast.B3) {
	n.ATkn = f.newToken(token.T_STRING, []byte("a"))
	if n.X != nil {
		n.X.Accept(f)
	}
	n.BTkn = f.newToken(token.T_STRING, []byte("b"))
	if n.Y != nil {
		n.Y.Accept(f)
	}
	n.SepTkns = nil
	if len(n.L) > 0 {
		n.SepTkns = f.formatList(n.L, ',')
	}
}

func (f *formatter) B4(n *ast.B4) {
	n.ATkn = f.newToken(token.T_STRING, []byte("a"))
	if n.X != nil {
		n.X.Accept(f)
	}
	n.BTkn = f.newToken(token.T_STRING, []byte("b"))
	if n.Y != nil {
		n.Y.Accept(f)
	}
	n.SepTkns = nil
	if len(n.L) > 0 {
		n.SepTkns = f.formatList(n.L, ',')
	}
}

func (f *formatter) B5(n *ast.B5) {
	n.ATkn = f.newToken(token.T_STRING, []byte("a"))
	if n.X != nil {
		n.X.Accept(f)
	}
	n.BTkn = f.newToken(token.T_STRING, []byte("b"))
	if n.Y != nil {
		n.Y.Accept(f)
	}
	n.SepTkns = nil
	if len(n.L) > 0 {
		n.SepTkns = f.formatList(n.L, ',')
	}
}

func (f *formatter) B6(n *ast.B6) {
	n.ATkn = f.newToken(token.T_STRING, []byte("a"))
	if n.X != nil {
		n.X.Accept(f)
	}
	n.BTkn = f.newToken(token.T_STRING, []byte("b"))
	if n.Y != nil {
		n.Y.Accept(f)
	}
	n.SepTkns = nil
	if len(n.L) > 0 {
		n.SepTkns = f.formatList(n.L, ',')
	}
}

func (f *formatter) B7(n *ast.B7) {
	n.ATkn = f.newToken(token.T_STRING, []byte("a"))
	if n.X != nil {
		n.X.Accept(f)
	}
	n.BTkn = f.newToken(token.T_STRING, []byte("b"))
	if n.Y != nil {
		n.Y.Accept(f)
	}
	n.SepTkns = nil
	if len(n.L) > 0 {
		n.SepTkns = f.formatList(n.L, ',')
	}
}

func (f *formatter) B8(n *ast.B8) {
	n.ATkn = f.newToken(token.T_STRING, []byte("a"))
	if n.X != nil {
		n.X.Accept(f)
	}
	n.BTkn = f.newToken(token.T_STRING, []byte("b"))
	if n.Y != nil {
		n.Y.Accept(f)
	}
	n.SepTkns = nil
	if len(n.L) > 0 {
		n.SepTkns = f.formatList(n.L, ',')
	}
}

