package printer

import (
	"bytes"
	"io"

	"github.com/z7zmey/php-parser/pkg/ast"
	"github.com/z7zmey/php-parser/pkg/token"
)

type printer struct {
	output io.Writer
	state  int
	last   []byte
}

func NewPrinter(w io.Writer) *printer { return &printer{output: w} }

func (p *printer) write(b []byte) {
	if len(b) == 0 {
		return
	}
	if p.state == 0 {
		if !bytes.HasPrefix(b, []byte("<?")) {
			p.output.Write([]byte("<?php "))
		}
		p.state = 1
	}
	if p.last != nil && isLabelChar(p.last[len(p.last)-1]) && isLabelChar(b[0]) {
		p.output.Write([]byte(" "))
	}
	p.last = b
	p.output.Write(b)
}

func isLabelChar(r byte) bool {
	return (r >= 'A' && r <= 'Z') || (r >= 'a' && r <= 'z') || (r >= '0' && r <= '9') || r == '_' || r >= 0x80
}

func (p *printer) printNode(n ast.Vertex) {
	if n != nil {
		n.Accept(p)
	}
}

func (p *printer) printList(list []ast.Vertex) {
	for _, nn := range list {
		p.printNode(nn)
	}
}

func (p *printer) printSeparatedList(list []ast.Vertex, separators []*token.Token, def []byte) {
	for k, nn := range list {
		p.printNode(nn)
		if k < len(separators) {
			p.printToken(separators[k], def)
		} else if k < len(list)-1 {
			p.write(def)
		}
	}
}

func (p *printer) printToken(t *token.Token, def []byte) {
	if t == nil && def == nil {
		return
	}
	if t == nil {
		p.write(def)
		return
	}
	for _, ff := range t.FreeFloating {
		p.write(ff.Value)
	}
	p.write(t.Value)
}

func (p *printer) ifNode(n ast.Vertex, val []byte) []byte {
	if n == nil {
		return nil
	}
	return val
}

func (p *printer) ifToken(t *token.Token, a []byte, b []byte) []byte {
	if t == nil {
		return b
	}
	return a
}

func (p *printer) Root(n *ast.Root) {
	p.printList(n.Stmts)
	p.printToken(n.EndTkn, nil)
}

func (p *printer) Leaf(n *ast.Leaf) {
	p.printToken(n.LeafTkn, n.Value)
}

func (p *printer) Pair(n *ast.Pair) {
	p.printNode(n.Left)
	p.printToken(n.OpTkn, p.ifNode(n.Right, []byte("+")))
	p.printNode(n.Right)
}

func (p *printer) List(n *ast.List) {
	p.printToken(n.OpenTkn, []byte("["))
	p.printSeparatedList(n.Items, n.SeparatorTkns, []byte(","))
	p.printToken(n.CloseTkn, []byte("]"))
}

func (p *printer) Alt(n *ast.Alt) {
	p.printToken(n.KeyTkn, []byte("while"))
	p.printToken(n.ColonTkn, nil)
	if stmt, ok := n.Stmt.(*ast.Block); ok && n.ColonTkn != nil {
		p.printToken(stmt.OpenTkn, nil)
		p.printList(stmt.Stmts)
		p.printToken(stmt.CloseTkn, nil)
	} else {
		p.printNode(n.Stmt)
	}
	p.printToken(n.EndTkn, p.ifToken(n.ColonTkn, []byte("endwhile"), nil))
}

func (p *printer) Block(n *ast.Block) {
	p.state = 1
	if p.last != nil {
		p.write([]byte("?>"))
	}
	p.printToken(n.OpenTkn, []byte("{"))
	p.printList(n.Stmts)
	p.printToken(n.CloseTkn, []byte("}"))
}

// bad: BTkn skipped
func (p *printer) B1(n *ast.B1) {
	p.printToken(n.ATkn, []byte("a"))
	p.printNode(n.X)
	p.printNode(n.Y)
	p.printSeparatedList(n.L, n.SepTkns, []byte(","))
}

// bad: X twice
func (p *printer) B2(n *ast.B2) {
	p.printToken(n.ATkn, []byte("a"))
	p.printNode(n.X)
	p.printNode(n.X)
	p.printToken(n.BTkn, []byte("b"))
	p.printNode(n.Y)
	p.printSeparatedList(n.L, n.SepTkns, []byte(","))
}

// bad: order
func (p *printer) B3(n *ast.B3) {
	p.printToken(n.ATkn, []byte("a"))
	p.printToken(n.BTkn, []byte("b"))
	p.printNode(n.X)
	p.printNode(n.Y)
	p.printSeparatedList(n.L, n.SepTkns, []byte(","))
}

// bad: separators dropped (printList on a separated list); default from another slot
func (p *printer) B4(n *ast.B4) {
	p.printToken(n.ATkn, n.BTkn.Value)
	p.printNode(n.X)
	p.printToken(n.BTkn, []byte("b"))
	p.printNode(n.Y)
	p.printList(n.L)
}

// bad: prints the child's token (not local)
func (p *printer) B5(n *ast.B5) {
	p.printToken(n.ATkn, []byte("a"))
	p.printToken(n.X.(*ast.Leaf).LeafTkn, nil)
	p.printNode(n.X)
	p.printToken(n.BTkn, []byte("b"))
	p.printNode(n.Y)
	p.printSeparatedList(n.L, n.SepTkns, []byte(","))
}

// bad: direct write of non-constant
func (p *printer) B6(n *ast.B6) {
	p.printToken(n.ATkn, []byte("a"))
	p.printNode(n.X)
	p.write(n.BTkn.Value)
	p.printToken(n.BTkn, []byte("b"))
	p.printNode(n.Y)
	p.printSeparatedList(n.L, n.SepTkns, []byte(","))
}

// bad: inline child printed incompletely; Y only on one branch
func (p *printer) B7(n *ast.B7) {
	p.printToken(n.ATkn, []byte("a"))
	if b, ok := n.X.(*ast.Block); ok && n.ATkn != nil {
		p.printToken(b.OpenTkn, nil)
		p.printList(b.Stmts)
	} else {
		p.printNode(n.X)
	}
	p.printToken(n.BTkn, []byte("b"))
	if n.BTkn != nil {
		p.printNode(n.Y)
	}
	p.printSeparatedList(n.L, n.SepTkns, []byte(","))
}

// ok
func (p *printer) B8(n *ast.B8) {
	p.printToken(n.ATkn, []byte("a"))
	p.printNode(n.X)
	p.printToken(n.BTkn, []byte("b"))
	p.printNode(n.Y)
	p.printSeparatedList(n.L, n.SepTkns, []byte(","))
}
