package traverser

import "github.com/z7zmey/php-parser/pkg/ast"

type Traverser struct {
	v ast.Visitor
}

func (t *Traverser) Traverse(n ast.Vertex) {
	if n != nil {
		n.Accept(t)
	}
}

// notAHelper visits unconditionally: must not be accepted as helper.
func (t *Traverser) notAHelper(n ast.Vertex) {
	n.Accept(t)
}

func (t *Traverser) Root(n *ast.Root) {
	n.Accept(t.v)
	for _, nn := range n.Stmts {
		nn.Accept(t)
	}
}

func (t *Traverser) Leaf(n *ast.Leaf) {
	n.Accept(t.v)
}

func (t *Traverser) Pair(n *ast.Pair) {
	n.Accept(t.v)
	t.Traverse(n.Left)
	if n.Right != nil {
		n.Right.Accept(t)
	}
}

func (t *Traverser) List(n *ast.List) {
	n.Accept(t.v)
	for _, nn := range n.Items {
		t.Traverse(nn)
	}
}

func (t *Traverser) Alt(n *ast.Alt) {
	n.Accept(t.v)
	if n.Stmt == nil {
		return
	}
	t.Traverse(n.Stmt)
}

func (t *Traverser) Block(n *ast.Block) {
	n.Accept(t.v)
	for _, nn := range n.Stmts {
		nn.Accept(t)
	}
}

// bad: child Y skipped
func (t *Traverser) B1(n *ast.B1) {
	n.Accept(t.v)
	t.Traverse(n.X)
	for _, nn := range n.L {
		nn.Accept(t)
	}
}

// bad: child X twice
func (t *Traverser) B2(n *ast.B2) {
	n.Accept(t.v)
	t.Traverse(n.X)
	t.Traverse(n.X)
	t.Traverse(n.Y)
	for _, nn := range n.L {
		nn.Accept(t)
	}
}

// bad: order
func (t *Traverser) B3(n *ast.B3) {
	n.Accept(t.v)
	t.Traverse(n.Y)
	t.Traverse(n.X)
	for _, nn := range n.L {
		nn.Accept(t)
	}
}

// bad: self after child
func (t *Traverser) B4(n *ast.B4) {
	t.Traverse(n.X)
	n.Accept(t.v)
	t.Traverse(n.Y)
	for _, nn := range n.L {
		nn.Accept(t)
	}
}

// bad: unguarded accept; list loop visits wrong thing
func (t *Traverser) B5(n *ast.B5) {
	n.Accept(t.v)
	n.X.Accept(t)
	t.Traverse(n.Y)
	for _, nn := range n.L {
		nn.Accept(t.v)
	}
}

// bad: self presented to traverser itself (infinite) / not to wrapped visitor
func (t *Traverser) B6(n *ast.B6) {
	n.Accept(t)
	t.Traverse(n.X)
	t.Traverse(n.Y)
	for _, nn := range n.L {
		nn.Accept(t)
	}
}

// bad: Y only visited on one branch
func (t *Traverser) B7(n *ast.B7) {
	n.Accept(t.v)
	t.Traverse(n.X)
	if n.X != nil {
		t.Traverse(n.Y)
	}
	for _, nn := range n.L {
		nn.Accept(t)
	}
}

// bad: uses the non-helper
func (t *Traverser) B8(n *ast.B8) {
	n.Accept(t.v)
	t.notAHelper(n.X)
	t.Traverse(n.Y)
	for _, nn := range n.L {
		nn.Accept(t)
	}
}
