package baddumper

import "fmt"

// bad (dump-helpers/format): the text is used as a format string
func (v *Dumper) printf(str string) {
	fmt.Fprintf(v.writer, str)
}

// ok: constant format, the text is an operand
func (v *Dumper) printq(str string) {
	fmt.Fprintf(v.writer, "%s", str)
}
