package badobs

import (
	"sort"

	"github.com/z7zmey/php-parser/pkg/ast"
	"github.com/z7zmey/php-parser/pkg/token"
)

func StoreTokenField(n *ast.Leaf) { n.LeafTkn.Value = nil }

func StoreNodeField(n *ast.Leaf) { n.Position = nil }

func IndexStore(n *ast.Leaf) { n.Value[0] = 'x' }

func AppendInPlace(n *ast.Root, x ast.Vertex) []ast.Vertex { return append(n.Stmts, x) }

func AliasStore(n *ast.List) {
	s := n.Items
	if len(s) > 0 {
		s[0] = nil
	}
}

func CopyInto(n *ast.Leaf) { copy(n.Value, "x") }

func SortItems(n *ast.List) {
	sort.Slice(n.Items, func(i, j int) bool { return i < j })
}

func ThroughPointer(l *[]ast.Vertex) { *l = nil }

func helperWrites(t *token.Token) { t.ID = 0 }

func ViaHelper(n *ast.Leaf) { helperWrites(n.LeafTkn) }

// ok: fresh storage only
func FreshOnly(n *ast.List, b []byte) ([]ast.Vertex, *token.Token) {
	t := &token.Token{}
	t.Value = b
	parts := []ast.Vertex{}
	parts = append(parts, n.Items...)
	var acc []ast.Vertex
	for _, it := range n.Items {
		acc = append(acc, it)
	}
	buf := make([]byte, 4)
	buf[0] = 'a'
	return append(parts, acc...), t
}
