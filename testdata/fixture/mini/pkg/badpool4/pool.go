package badpool4

type T struct{ A int }

type Pool struct {
	block []T
	off   int
}

func NewPool(blockSize int) *Pool {
	return &Pool{block: make([]T, blockSize)}
}

// bad: no increment on the fresh-block path; nil for full block
func (p *Pool) Get() *T {
	if len(p.block) == p.off {
		p.block = make([]T, len(p.block))
		p.off = 0
		return &p.block[0]
	}
	if p.off > 3 {
		return nil
	}
	p.off++
	return &p.block[p.off-1]
}
