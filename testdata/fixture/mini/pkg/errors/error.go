package errors

import "github.com/z7zmey/php-parser/pkg/position"

type Error struct {
	Msg string
	Pos *position.Position
}

func NewError(msg string, p *position.Position) *Error { return &Error{Msg: msg, Pos: p} }
