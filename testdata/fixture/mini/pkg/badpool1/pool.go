package badpool1

type T struct{ A int }

type Pool struct {
	block []T
	off   int
}

func NewPool(blockSize int) *Pool {
	return &Pool{block: make([]T, blockSize)}
}

// bad: returns &block[off] after increment: out of range at the block end
func (p *Pool) Get() *T {
	if len(p.block) == 0 {
		return nil
	}
	if len(p.block) == p.off {
		p.block = make([]T, len(p.block))
		p.off = 0
	}
	p.off++
	return &p.block[p.off]
}
