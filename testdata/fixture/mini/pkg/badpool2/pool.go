package badpool2

type T struct{ A int }

type Pool struct {
	block []T
	off   int
}

func NewPool(blockSize int) *Pool {
	return &Pool{block: make([]T, blockSize)}
}

// bad: forgets to reset off / reuses the block
func (p *Pool) Get() *T {
	if len(p.block) == 0 {
		return nil
	}
	if len(p.block) == p.off {
		p.off = 0
	}
	p.off++
	return &p.block[p.off-1]
}

func (p *Pool) Reset() { p.off = 0 }
