// Package gtok: token ids that agree with the fixture grammars (fixture for token-ids-agree).
package gtok

type ID int

const (
	T_A ID = iota + 57346
	T_OP
	T_KEY
	T_END
)
