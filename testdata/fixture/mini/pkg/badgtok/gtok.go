// Package badgtok: two ids are exchanged and one grammar token is missing.
package badgtok

type ID int

const (
	T_A ID = iota + 57346
	T_KEY
	T_OP
)
