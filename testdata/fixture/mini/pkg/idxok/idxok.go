// Package idxok: index and slice expressions that are in range on every path (fixture for idx-safe).
package idxok

type W struct {
	last []byte
	out  []byte
	sep  []int
	xs   []int
}

const tabs = "\t\t\t\t\t\t\t\t"

func (w *W) write(b []byte) {
	if len(b) == 0 {
		return
	}
	if w.last != nil && w.last[len(w.last)-1] == b[0] {
		w.out = append(w.out, ' ')
	}
	w.last = b
	w.out = append(w.out, b...)
}

func indent(n int) string {
	if n < 0 {
		n = 0
	}
	if n > len(tabs) {
		return tabs
	}
	return tabs[:n]
}

func last(xs []int) int {
	if len(xs) == 0 {
		return -1
	}
	return xs[len(xs)-1]
}

func (w *W) seps() {
	w.sep = make([]int, len(w.xs)-1)
	for i := range w.xs {
		if i != len(w.xs)-1 {
			w.sep[i] = i
		}
	}
}

func sum(xs []int) int {
	s := 0
	for i := 0; i < len(xs); i++ {
		s += xs[i]
	}
	for k := range xs {
		s += xs[k]
	}
	return s
}

func second(xs []int) int {
	if len(xs) > 1 && xs[1] > 0 {
		return xs[1]
	}
	return 0
}

func window(b []byte, lo, hi int) []byte {
	if lo < 0 || hi > len(b) || lo > hi {
		return nil
	}
	return b[lo:hi]
}

func grow(s []int, n int) []int {
	if n >= 0 && len(s)+n <= cap(s) {
		return s[:len(s)+n]
	}
	return s
}

// the guard is in the only caller
func (w *W) emit(b []byte) {
	if len(b) == 0 {
		return
	}
	if w.glues(b) {
		w.out = append(w.out, ' ')
	}
	w.out = append(w.out, b...)
}

func (w *W) glues(b []byte) bool {
	return w.last != nil && b[0] == ' '
}
