// Package tokname: a stringer-style name table that agrees with its constants (fixture for token-names).
package tokname

import "strconv"

type ID int

const (
	T_A ID = iota + 100
	T_BB
	T_CCC
)

const _ID_name = "T_AT_BBT_CCC"

var _ID_index = [...]uint8{0, 3, 7, 12}

func (i ID) String() string {
	i -= 100
	if i < 0 || i >= ID(len(_ID_index)-1) {
		return "ID(" + strconv.FormatInt(int64(i+100), 10) + ")"
	}
	return _ID_name[_ID_index[i]:_ID_index[i+1]]
}
