// Package idxbad: index and slice expressions that can be out of range.
package idxbad

type W struct {
	last []byte
	out  []byte
}

const tabs = "\t\t\t\t\t\t\t\t"

// the empty chunk is stored, so last can be empty and non-nil
func (w *W) write(b []byte) {
	if w.last != nil && len(b) > 0 && w.last[len(w.last)-1] == b[0] {
		w.out = append(w.out, ' ')
	}
	w.last = b
	w.out = append(w.out, b...)
}

// deeper than the constant
func indent(n int) string {
	return tabs[:n]
}

func last(xs []int) int {
	return xs[len(xs)-1]
}

func sum(xs []int) int {
	s := 0
	for i := 0; i <= len(xs); i++ {
		s += xs[i]
	}
	return s
}

func second(xs []int) int {
	if len(xs) > 0 && xs[1] > 0 {
		return 1
	}
	return 0
}

// one of the two callers does not guard
func (w *W) emit(b []byte) {
	if len(b) == 0 {
		return
	}
	if w.glues(b) {
		w.out = append(w.out, ' ')
	}
}

func (w *W) emitRaw(b []byte) {
	if w.glues(b) {
		w.out = append(w.out, ' ')
	}
}

func (w *W) glues(b []byte) bool {
	return b[0] == ' '
}
