package token

type Pool struct {
	block []Token
	off   int
}

func NewPool(blockSize int) *Pool {
	return &Pool{
		block: make([]Token, blockSize),
	}
}

// ok: a behaviour-preserving variant of the real Get (>= instead of ==, local index)
func (p *Pool) Get() *Token {
	if len(p.block) == 0 {
		return nil
	}
	if p.off >= len(p.block) {
		p.block = make([]Token, len(p.block))
		p.off = 0
	}
	i := p.off
	p.off = i + 1
	return &p.block[i]
}
