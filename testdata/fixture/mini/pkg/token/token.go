package token

import "github.com/z7zmey/php-parser/pkg/position"

type ID int

const (
	T_WHITESPACE ID = iota + 57346
	T_STRING
	T_COMMENT
	T_DOC_COMMENT
	T_INLINE_HTML
	T_LNUMBER
	T_DNUMBER
)

func (i ID) String() string { return "T" }

type Token struct {
	ID           ID
	Value        []byte
	Position     *position.Position
	FreeFloating []*Token
}
