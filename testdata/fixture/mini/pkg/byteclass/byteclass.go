// Package byteclass: fixture for rule byte-class.
package byteclass

import "unicode"

func good(r byte) bool {
	return (r >= 'A' && r <= 'Z') || (r >= 'a' && r <= 'z') || (r >= '0' && r <= '9') || r == '_' || r >= 0x80
}

func goodStart(r byte) bool {
	return !(r < 'A' || (r > 'Z' && r < 'a' && r != '_') || (r > 'z' && r < 0x80))
}

// bad: no digits
func noDigits(r byte) bool {
	return (r >= 'A' && r <= 'Z') || (r >= 'a' && r <= 'z') || r == '_' || r >= 0x80
}

// bad (undecided): library classification of a single byte
func viaUnicode(r byte) bool {
	return unicode.IsLetter(rune(r)) || unicode.IsDigit(rune(r)) || r == '_'
}
