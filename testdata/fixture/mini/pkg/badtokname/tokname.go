// Package badtokname: the names of two constants are exchanged in the table and one constant lies outside it.
package badtokname

import "strconv"

type ID int

const (
	T_AA ID = iota + 100
	T_BB
	T_CCC
	T_D
)

const _ID_name = "T_BBT_AAT_CCC"

var _ID_index = [...]uint8{0, 4, 8, 13}

func (i ID) String() string {
	i -= 100
	if i < 0 || i >= ID(len(_ID_index)-1) {
		return "ID(" + strconv.FormatInt(int64(i+100), 10) + ")"
	}
	return _ID_name[_ID_index[i]:_ID_index[i+1]]
}
