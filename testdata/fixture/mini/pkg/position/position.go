package position

type Position struct {
	StartLine int
	EndLine   int
	StartPos  int
	EndPos    int
}

func NewPosition(startLine, endLine, startPos, endPos int) *Position {
	return &Position{StartLine: startLine, EndLine: endLine, StartPos: startPos, EndPos: endPos}
}
