package position

type Position struct {
	StartLine int
	EndLine   int
	StartPos  int
	EndPos    int
}
