package ast

import (
	"github.com/z7zmey/php-parser/pkg/position"
	"github.com/z7zmey/php-parser/pkg/token"
)

type Root struct {
	Position *position.Position
	Stmts []Vertex
	EndTkn *token.Token
}

func (n *Root) Accept(v Visitor) {
	v.Root(n)
}

func (n *Root) GetPosition() *position.Position {
	return n.Position
}

type Leaf struct {
	Position *position.Position
	LeafTkn *token.Token
	Value []byte
}

func (n *Leaf) Accept(v Visitor) {
	v.Leaf(n)
}

func (n *Leaf) GetPosition() *position.Position {
	return n.Position
}

type Pair struct {
	Position *position.Position
	Left Vertex
	OpTkn *token.Token
	Right Vertex
}

func (n *Pair) Accept(v Visitor) {
	v.Pair(n)
}

func (n *Pair) GetPosition() *position.Position {
	return n.Position
}

type List struct {
	Position *position.Position
	OpenTkn *token.Token
	Items []Vertex
	SeparatorTkns []*token.Token
	CloseTkn *token.Token
}

func (n *List) Accept(v Visitor) {
	v.List(n)
}

func (n *List) GetPosition() *position.Position {
	return n.Position
}

type Alt struct {
	Position *position.Position
	KeyTkn *token.Token
	ColonTkn *token.Token
	Stmt Vertex
	EndTkn *token.Token
}

func (n *Alt) Accept(v Visitor) {
	v.Alt(n)
}

func (n *Alt) GetPosition() *position.Position {
	return n.Position
}

type Block struct {
	Position *position.Position
	OpenTkn *token.Token
	Stmts []Vertex
	CloseTkn *token.Token
}

func (n *Block) Accept(v Visitor) {
	v.Block(n)
}

func (n *Block) GetPosition() *position.Position {
	return n.Position
}

type B1 struct {
	Position *position.Position
	ATkn *token.Token
	X Vertex
	BTkn *token.Token
	Y Vertex
	L []Vertex
	SepTkns []*token.Token
}

func (n *B1) Accept(v Visitor) {
	v.B1(n)
}

func (n *B1) GetPosition() *position.Position {
	return n.Position
}

type B2 struct {
	Position *position.Position
	ATkn *token.Token
	X Vertex
	BTkn *token.Token
	Y Vertex
	L []Vertex
	SepTkns []*token.Token
}

func (n *B2) Accept(v Visitor) {
	v.B2(n)
}

func (n *B2) GetPosition() *position.Position {
	return n.Position
}

type B3 struct {
	Position *position.Position
	ATkn *token.Token
	X Vertex
	BTkn *token.Token
	Y Vertex
	L []Vertex
	SepTkns []*token.Token
}

func (n *B3) Accept(v Visitor) {
	v.B3(n)
}

func (n *B3) GetPosition() *position.Position {
	return n.Position
}

type B4 struct {
	Position *position.Position
	ATkn *token.Token
	X Vertex
	BTkn *token.Token
	Y Vertex
	L []Vertex
	SepTkns []*token.Token
}

func (n *B4) Accept(v Visitor) {
	v.B4(n)
}

func (n *B4) GetPosition() *position.Position {
	return n.Position
}

type B5 struct {
	Position *position.Position
	ATkn *token.Token
	X Vertex
	BTkn *token.Token
	Y Vertex
	L []Vertex
	SepTkns []*token.Token
}

func (n *B5) Accept(v Visitor) {
	v.B5(n)
}

func (n *B5) GetPosition() *position.Position {
	return n.Position
}

type B6 struct {
	Position *position.Position
	ATkn *token.Token
	X Vertex
	BTkn *token.Token
	Y Vertex
	L []Vertex
	SepTkns []*token.Token
}

func (n *B6) Accept(v Visitor) {
	v.B6(n)
}

func (n *B6) GetPosition() *position.Position {
	return n.Position
}

type B7 struct {
	Position *position.Position
	ATkn *token.Token
	X Vertex
	BTkn *token.Token
	Y Vertex
	L []Vertex
	SepTkns []*token.Token
}

func (n *B7) Accept(v Visitor) {
	v.B7(n)
}

func (n *B7) GetPosition() *position.Position {
	return n.Position
}

type B8 struct {
	Position *position.Position
	ATkn *token.Token
	X Vertex
	BTkn *token.Token
	Y Vertex
	L []Vertex
	SepTkns []*token.Token
}

func (n *B8) Accept(v Visitor) {
	v.B7(nil)
}

func (n *B8) GetPosition() *position.Position {
	return n.Position
}

