package ast

import "github.com/z7zmey/php-parser/pkg/position"

type Vertex interface {
	Accept(v Visitor)
	GetPosition() *position.Position
}

type Visitor interface {
	Root(n *Root)
	Leaf(n *Leaf)
	Pair(n *Pair)
	List(n *List)
	Alt(n *Alt)
	Block(n *Block)
	B1(n *B1)
	B2(n *B2)
	B3(n *B3)
	B4(n *B4)
	B5(n *B5)
	B6(n *B6)
	B7(n *B7)
	B8(n *B8)
}
