package badversion

import (
	"errors"
	"strconv"
	"strings"
)

type Version struct {
	Major, Minor uint64
}

var (
	ErrInvalidSemVer  = errors.New("invalid semantic version")
	ErrUnsupportedVer = errors.New("the version is out of supported range")

	php5RangeStart = &Version{Major: 5}
	php5RangeEnd   = &Version{Major: 5, Minor: 5}
	php7RangeStart = &Version{Major: 7}
	php7RangeEnd   = &Version{Major: 7, Minor: 4}
)

func New(v string) (*Version, error) {
	parts := strings.SplitN(v, ".", 2)
	if len(parts) != 2 {
		return nil, ErrInvalidSemVer
	}
	var ver = new(Version)
	var err error
	ver.Major, err = strconv.ParseUint(parts[0], 10, 64)
	if err != nil {
		return nil, err
	}
	ver.Minor, err = strconv.ParseUint(parts[1], 10, 8)
	if err != nil {
		return nil, err
	}
	return ver, nil
}

// a behaviour-preserving rewrite of the real code
func (v *Version) Validate() error {
	if v.InRange(php5RangeStart, php5RangeEnd) || v.InRange(php7RangeStart, php7RangeEnd) {
		return nil
	}
	return ErrUnsupportedVer
}

func (v *Version) Less(o *Version) bool           { return v.Compare(o) <= 0 }
func (v *Version) LessOrEqual(o *Version) bool    { return !v.Greater(o) }
func (v *Version) Greater(o *Version) bool        { return v.Compare(o) > 0 }
func (v *Version) GreaterOrEqual(o *Version) bool { return v.Compare(o) >= 0 }

func (v *Version) InRange(s, e *Version) bool {
	return v.Greater(s) && v.LessOrEqual(e)
}

func (v *Version) Compare(o *Version) int {
	if v.Minor != o.Minor {
		if v.Minor < o.Minor {
			return -1
		}
		return 1
	}
	return compareSegment(v.Major, o.Major)
}

func compareSegment(v, o uint64) int {
	if v < o {
		return -1
	}
	if v > o {
		return 1
	}
	return 0
}
