package badpool3

type T struct{ A int }

type Pool struct {
	block []T
	off   int
}

func NewPool(blockSize int) *Pool {
	return &Pool{block: make([]T, blockSize), off: 1}
}

// bad: boundary test off by one: block replaced one element early is fine, but here one late
func (p *Pool) Get() *T {
	if len(p.block) == 0 {
		return nil
	}
	if len(p.block) < p.off {
		p.block = make([]T, len(p.block))
		p.off = 0
	}
	p.off++
	return &p.block[p.off-1]
}

var shared = NewPool(0)
