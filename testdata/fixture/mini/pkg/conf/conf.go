package conf

import (
	"github.com/z7zmey/php-parser/pkg/errors"
	"github.com/z7zmey/php-parser/pkg/version"
)

type Config struct {
	Version          *version.Version
	ErrorHandlerFunc func(e *errors.Error)
}
