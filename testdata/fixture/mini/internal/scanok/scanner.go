// Package scanok: a miniature scanner in the shape ragel -G2 generates (fixture for engine B).
package scanok

import (
	"strconv"
	"strings"

	"github.com/z7zmey/php-parser/pkg/position"
	"github.com/z7zmey/php-parser/pkg/token"
)

const lexer_start int = 1
const lexer_first_final int = 3
const lexer_error int = 0

const lexer_en_main int = 1
const lexer_en_php int = 3

type NewLines struct{ data []int }

func (nl *NewLines) Append(p int) {
	if len(nl.data) == 0 || nl.data[len(nl.data)-1] < p {
		nl.data = append(nl.data, p)
	}
}

func (nl *NewLines) GetLine(p int) int {
	line := len(nl.data) + 1
	for i := len(nl.data) - 1; i >= 0; i-- {
		if p < nl.data[i] {
			line = i + 1
		} else {
			break
		}
	}
	return line
}

type Lexer struct {
	data        []byte
	p, pe, cs   int
	ts, te, act int
	stack       []int
	top         int
	tokenPool   *token.Pool
	newLines    NewLines
	errs        int
}

func NewLexer(data []byte) *Lexer {
	return &Lexer{data: data, pe: len(data), cs: lexer_start, tokenPool: token.NewPool(16)}
}

func (lex *Lexer) setTokenPosition(t *token.Token) {
	pos := &position.Position{}
	pos.StartLine = lex.newLines.GetLine(lex.ts)
	pos.EndLine = lex.newLines.GetLine(lex.te - 1)
	pos.StartPos = lex.ts
	pos.EndPos = lex.te
	t.Position = pos
}

func (lex *Lexer) addFreeFloatingToken(t *token.Token, id token.ID, ps, pe int) {
	skipped := lex.tokenPool.Get()
	skipped.ID = id
	skipped.Value = lex.data[ps:pe]
	lex.setTokenPosition(skipped)
	t.FreeFloating = append(t.FreeFloating, skipped)
}

func (lex *Lexer) ungetCnt(n int) {
	lex.p = lex.p - n
	lex.te = lex.te - n
}

func (lex *Lexer) ungetStr(s string) {
	if strings.HasSuffix(string(lex.data[lex.ts:lex.te]), s) {
		lex.ungetCnt(len(s))
	}
}

func (lex *Lexer) error(msg string) { lex.errs++ }

// isNotCommentEnd: a transition predicate that only looks at the input
func (lex *Lexer) isNotCommentEnd() bool {
	if lex.p+1 < len(lex.data) && lex.data[lex.p] == '?' && lex.data[lex.p+1] == '>' {
		return false
	}
	if lex.data[lex.p] == '\n' && lex.data[lex.p-1] == '\r' {
		return true
	}
	return lex.data[lex.p-1] != '\n' && lex.data[lex.p-1] != '\r'
}

func (lex *Lexer) Lex() *token.Token {
	eof := lex.pe
	var tok token.ID
	mStart, mEnd := 0, 0
	_, _ = mStart, mEnd

	tkn := lex.tokenPool.Get()

	{
		if (lex.p) == (lex.pe) {
			goto _test_eof
		}
		goto _resume

	_again:
		switch lex.cs {
		case 1:
			goto st1
		case 3:
			goto st3
		case 4:
			goto st4
		case 5:
			goto st5
		case 6:
			goto st6
		case 7:
			goto st7
		case 8:
			goto st8
		case 9:
			goto st9
		}

		if (lex.p)++; (lex.p) == (lex.pe) {
			goto _test_eof
		}
	_resume:
		switch lex.cs {
		case 1:
			goto st_case_1
		case 0:
			goto st_case_0
		case 3:
			goto st_case_3
		case 4:
			goto st_case_4
		case 5:
			goto st_case_5
		case 6:
			goto st_case_6
		case 7:
			goto st_case_7
		case 8:
			goto st_case_8
		case 9:
			goto st_case_9
		}
		goto st_out
	tr0:
		lex.cs = 1
		lex.te = (lex.p) + 1
		{
			lex.cs = 3
			lex.ungetCnt(1)
		}
		goto _again
	tr12:
		lex.te = (lex.p) + 1
		{
			// ok (comment-kind): which comments are doc comments
			isDocComment := false
			if lex.te-lex.ts > 4 && string(lex.data[lex.ts:lex.ts+3]) == "/**" {
				isDocComment = true
			}

			if isDocComment {
				lex.addFreeFloatingToken(tkn, token.T_DOC_COMMENT, lex.ts, lex.te)
			} else {
				lex.addFreeFloatingToken(tkn, token.T_COMMENT, lex.ts, lex.te)
			}
		}
		goto st1
	st1:
		lex.ts = 0

		if (lex.p)++; (lex.p) == (lex.pe) {
			goto _test_eof1
		}
	st_case_1:
		lex.ts = (lex.p)

		if lex.data[(lex.p)] == 47 {
			goto tr12
		}
		goto tr0
	st_case_0:
		lex.cs = 0
		goto _out
	tr1:
		if lex.data[lex.p] == '\n' {
			lex.newLines.Append(lex.p + 1)
		}

		if lex.data[lex.p] == '\r' && lex.p+1 < len(lex.data) && lex.data[lex.p+1] != '\n' {
			lex.newLines.Append(lex.p + 1)
		}

		goto st4
	tr2:
		lex.te = (lex.p)
		(lex.p)--
		{
			lex.addFreeFloatingToken(tkn, token.T_WHITESPACE, lex.ts, lex.te)
		}
		goto st3
	tr3:
		lex.te = (lex.p) + 1
		mEnd = lex.p
		{
			_ = lex.data[mStart:mEnd]
			lex.setTokenPosition(tkn)
			tok = token.T_STRING
			{
				(lex.p)++
				lex.cs = 3
				goto _out
			}
		}
		goto st3
	tr4:
		lex.te = (lex.p)
		(lex.p)--
		{
			// ok (num-classify, num-spec): an integer only if its digits, in its radix, parse as one
			base := 10
			if lex.data[lex.ts] == '0' {
				base = 8
			}
			_, err := strconv.ParseInt(strings.Replace(string(lex.data[lex.ts:lex.te]), "_", "", -1), base, 0)
			if err == nil {
				lex.setTokenPosition(tkn)
				tok = token.T_LNUMBER
				{
					(lex.p)++
					lex.cs = 3
					goto _out
				}
			}
			lex.setTokenPosition(tkn)
			tok = token.T_DNUMBER
			{
				(lex.p)++
				lex.cs = 3
				goto _out
			}
		}
		goto st3
	tr5:
		if lex.data[lex.p] == '\n' {
			lex.newLines.Append(lex.p + 1)
		}

		if lex.data[lex.p] == '\r' && lex.p+1 < len(lex.data) && lex.data[lex.p+1] != '\n' {
			lex.newLines.Append(lex.p + 1)
		}

		goto st7
	tr6:
		lex.te = (lex.p)
		(lex.p)--
		{
			lex.ungetStr("?>")
			lex.addFreeFloatingToken(tkn, token.T_COMMENT, lex.ts, lex.te)
		}
		goto st3
	tr7:
		lex.te = (lex.p) + 1
		{
			c := lex.data[lex.p]
			lex.error(string(c))
		}
		goto st3
	tr8:
		mStart = lex.p
		goto st5
	st3:
		lex.ts = 0

		if (lex.p)++; (lex.p) == (lex.pe) {
			goto _test_eof3
		}
	st_case_3:
		lex.ts = (lex.p)

		switch lex.data[(lex.p)] {
		case 9:
			goto st4
		case 10:
			goto tr1
		case 13:
			goto tr1
		case 32:
			goto st4
		case 35:
			goto st6
		case 65:
			goto tr8
		case 96:
			goto st8
		case 97:
			goto tr8
		}
		goto tr7
	st4:
		if (lex.p)++; (lex.p) == (lex.pe) {
			goto _test_eof4
		}
	st_case_4:
		switch lex.data[(lex.p)] {
		case 9:
			goto st4
		case 10:
			goto tr1
		case 13:
			goto tr1
		case 32:
			goto st4
		}
		goto tr2
	st5:
		if (lex.p)++; (lex.p) == (lex.pe) {
			goto _test_eof5
		}
	st_case_5:
		switch lex.data[(lex.p)] {
		case 66:
			goto tr3
		case 98:
			goto tr3
		}
		goto tr4
	st6:
		if (lex.p)++; (lex.p) == (lex.pe) {
			goto _test_eof6
		}
	st_case_6:
		switch lex.data[(lex.p)] {
		case 10:
			goto tr5
		case 13:
			goto tr5
		}
		if lex.isNotCommentEnd() {
			goto st6
		}
		goto tr6
	st7:
		if (lex.p)++; (lex.p) == (lex.pe) {
			goto _test_eof7
		}
	st_case_7:
		// toy simplification, reported by crlf-unit: the comment ends after a CR, the LF of a CR LF pair becomes whitespace
		goto tr6
	tr9:
		if lex.data[lex.p] == '\n' {
			lex.newLines.Append(lex.p + 1)
		}

		if lex.data[lex.p] == '\r' && lex.p+1 < len(lex.data) && lex.data[lex.p+1] != '\n' {
			lex.newLines.Append(lex.p + 1)
		}

		goto st9
	tr10:
		lex.te = (lex.p) + 1
		{
			lex.setTokenPosition(tkn)
			tok = token.T_STRING
			{
				(lex.p)++
				lex.cs = 3
				goto _out
			}
		}
		goto st3
	tr11:
		lex.te = (lex.p)
		(lex.p)--
		{
			lex.setTokenPosition(tkn)
			tok = token.T_STRING
			{
				(lex.p)++
				lex.cs = 3
				goto _out
			}
		}
		goto st3
	st8:
		if (lex.p)++; (lex.p) == (lex.pe) {
			goto _test_eof8
		}
	st_case_8:
		switch lex.data[(lex.p)] {
		case 10:
			goto tr9
		case 13:
			goto tr9
		case 96:
			goto tr10
		}
		goto st8
	st9:
		if (lex.p)++; (lex.p) == (lex.pe) {
			goto _test_eof9
		}
	st_case_9:
		switch lex.data[(lex.p)] {
		case 10:
			goto tr9
		case 13:
			goto tr9
		case 96:
			goto tr10
		}
		goto st8
	st_out:
	_test_eof1:
		lex.cs = 1
		goto _test_eof
	_test_eof3:
		lex.cs = 3
		goto _test_eof
	_test_eof4:
		lex.cs = 4
		goto _test_eof
	_test_eof5:
		lex.cs = 5
		goto _test_eof
	_test_eof6:
		lex.cs = 6
		goto _test_eof
	_test_eof7:
		lex.cs = 7
		goto _test_eof
	_test_eof8:
		lex.cs = 8
		goto _test_eof
	_test_eof9:
		lex.cs = 9
		goto _test_eof

	_test_eof:
		{
		}
		if (lex.p) == eof {
			switch lex.cs {
			case 4:
				goto tr2
			case 5:
				goto tr4
			case 6:
				goto tr6
			case 7:
				goto tr6
			case 8:
				goto tr11
			case 9:
				goto tr11
			}
		}

	_out:
		{
		}
	}

	tkn.Value = lex.data[lex.ts:lex.te]
	tkn.ID = token.ID(tok)

	return tkn
}

// ok (newline-symmetry): LF and CR alike
func (lex *Lexer) isLabelEnd(p int) bool {
	if len(lex.data) > p+1 && lex.data[p] == ';' && lex.data[p+1] != '\r' && lex.data[p+1] != '\n' {
		return false
	}
	return true
}

// call-stack helpers in the shape of the repository's lexer.go
func (lex *Lexer) growCallStack() {
	if lex.top == len(lex.stack) {
		lex.stack = append(lex.stack, 0)
	}
}

func (lex *Lexer) call(state int, fnext int) {
	lex.growCallStack()
	lex.stack[lex.top] = state
	lex.top++
	lex.p++
	lex.cs = fnext
}

func (lex *Lexer) ret(n int) {
	if lex.top < n {
		lex.top = 0
		lex.p++
		return
	}
	lex.top = lex.top - n
	lex.cs = lex.stack[lex.top]
	lex.p++
}

func (lex *Lexer) retOne() { lex.ret(1) }
