package ybad

import (
	"github.com/z7zmey/php-parser/internal/position"
	"github.com/z7zmey/php-parser/pkg/ast"
	pos "github.com/z7zmey/php-parser/pkg/position"
	"github.com/z7zmey/php-parser/pkg/token"
)

type Parser struct {
	currentToken *token.Token
	rootNode     ast.Vertex
	builder      *position.Builder
}

func (p *Parser) Lex(lval *yySymType) int { return 0 }
func (p *Parser) Error(msg string)        {}

type ParserSeparatedList struct {
	Position      *pos.Position
	Items         []ast.Vertex
	SeparatorTkns []*token.Token
}

func (n *ParserSeparatedList) Accept(v ast.Visitor)         {}
func (n *ParserSeparatedList) GetPosition() *pos.Position { return n.Position }
