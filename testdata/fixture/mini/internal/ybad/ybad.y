%{
package ybad

import (
    "strconv"

    "github.com/z7zmey/php-parser/pkg/ast"
    "github.com/z7zmey/php-parser/pkg/token"
)
%}

%union{
    node  ast.Vertex
    token *token.Token
    list  []ast.Vertex
}

%token <token> T_A
%token <token> T_OP
%token <token> T_KEY
%token <token> T_END
%token <token> '('
%token <token> ')'
%token <token> ','
%token <token> ':'
%token <token> ';'

%type <node> stmt leaf pair items opt_leaf alt
%type <list> stmt_list

%%

start:
        stmt_list
            {
                yylex.(*Parser).rootNode = &ast.Root{
                    Position: yylex.(*Parser).builder.NewNodeListPosition($1),
                    Stmts: $1,
                    EndTkn: yylex.(*Parser).currentToken,
                }
            }
;

stmt_list:
        stmt_list stmt
            {
                // bad (list-index): the list starts empty
                first := $1[0]
                _ = first
                $$ = append($1, $2)
            }
    |   /* empty */
            {
                $$ = []ast.Vertex{}
            }
;

stmt:
        error
            {
            }
    |   pair
            {
                $$ = $1
            }
    |   '(' items ')'
            {
                // bad (nil-deref): only one branch gives the pointer a value
                var spare *ast.Leaf
                if $2 == nil {
                    spare = &ast.Leaf{}
                }
                _ = spare.Value
                $$ = &ast.List{
                    Position: yylex.(*Parser).builder.NewTokensPosition($1, $3),
                    OpenTkn: $1,
                    Items: $2.(*ParserSeparatedList).Items,
                    SeparatorTkns: []*token.Token{},
                    CloseTkn: $1,
                }
            }
    |   alt
            {
                $$ = $1
            }
    |   T_END leaf
            {
                $$ = &ast.Pair{
                    Position: yylex.(*Parser).builder.NewTokenNodePosition($1, $2),
                    OpTkn: $1,
                    Right: $2,
                }
            }
;

alt:
        T_KEY ':' opt_leaf stmt T_END
            {
                if $3 != nil {
                    pos := yylex.(*Parser).builder.NewTokensPosition($1, $5)
                    $$ = &ast.Alt{
                        Position: pos,
                        KeyTkn: $1,
                        ColonTkn: $2,
                        Stmt: &ast.Pair{
                            Position: pos,
                            Left: $4,
                            Right: $3,
                        },
                        EndTkn: $5,
                    }
                } else {
                    $$ = &ast.Alt{
                        Position: yylex.(*Parser).builder.NewTokensPosition($1, $5),
                        KeyTkn: $1,
                        ColonTkn: $2,
                        Stmt: $4,
                        EndTkn: $5,
                    }
                }
            }
;

opt_leaf:
        /* empty */
            {
                $$ = nil
            }
    |   leaf
            {
                $$ = $1
            }
;

items:
        leaf
            {
                $$ = &ast.Block{
                    Stmts: []ast.Vertex{&ParserSeparatedList{Items: []ast.Vertex{$1}}},
                }
            }
    |   items ',' leaf
            {
                $1.(*ParserSeparatedList).SeparatorTkns = append($1.(*ParserSeparatedList).SeparatorTkns, $2)
                $1.(*ParserSeparatedList).Items = append($1.(*ParserSeparatedList).Items, $3)

                $$ = $1
            }
;

pair:
        leaf T_OP leaf
            {
                $$ = &ast.Pair{
                    Position: yylex.(*Parser).builder.NewNodesPosition($1, $1),
                    Left: $1,
                    OpTkn: $2,
                    Right: $3,
                }
            }
;

leaf:
        T_A
            {
                // bad (int-parse-decimal): numeric leaves are told apart by a parse that guesses the base
                if _, err := strconv.ParseInt(string($1.Value), 0, 64); err == nil {
                    $$ = &ast.Leaf{
                        Position: yylex.(*Parser).builder.NewTokenPosition($1),
                        LeafTkn: $1,
                        Value: yylex.(*Parser).currentToken.Value,
                    }
                } else {
                    $$ = &ast.Leaf{
                        Position: yylex.(*Parser).builder.NewTokenPosition($1),
                        LeafTkn: $1,
                        Value: yylex.(*Parser).currentToken.Value,
                    }
                }
            }
;

%%
