// Package hdok: the heredoc end predicates in the shape of the repository's lexer.go (fixture of rule heredoc-spec).
package hdok

import (
	"bytes"

	"github.com/z7zmey/php-parser/pkg/version"
)

type Lexer struct {
	data         []byte
	p            int
	heredocLabel []byte
	phpVersion   *version.Version
}

var flexibleFrom = &version.Version{Major: 7, Minor: 3}

func (lex *Lexer) isHeredocEnd(p int) bool {
	if lex.phpVersion.GreaterOrEqual(flexibleFrom) {
		return lex.isHeredocEndSince73(p)
	}
	return lex.isHeredocEndBefore73(p)
}

func (lex *Lexer) isHeredocEndBefore73(p int) bool {
	if lex.data[p-1] != '\r' && lex.data[p-1] != '\n' {
		return false
	}
	l := len(lex.heredocLabel)
	if len(lex.data) < p+l {
		return false
	}
	if len(lex.data) > p+l && lex.data[p+l] != ';' && lex.data[p+l] != '\r' && lex.data[p+l] != '\n' {
		return false
	}
	if len(lex.data) > p+l+1 && lex.data[p+l] == ';' && lex.data[p+l+1] != '\r' && lex.data[p+l+1] != '\n' {
		return false
	}
	return bytes.Equal(lex.heredocLabel, lex.data[p:p+l])
}

func (lex *Lexer) isHeredocEndSince73(p int) bool {
	if lex.data[p-1] != '\r' && lex.data[p-1] != '\n' {
		return false
	}
	for p < len(lex.data) && (lex.data[p] == ' ' || lex.data[p] == '\t') {
		p++
	}
	l := len(lex.heredocLabel)
	if len(lex.data) < p+l {
		return false
	}
	if len(lex.data) > p+l && isValidVarName(lex.data[p+l]) {
		return false
	}
	return bytes.Equal(lex.heredocLabel, lex.data[p:p+l])
}

func (lex *Lexer) isNotHeredocEnd(p int) bool { return !lex.isHeredocEnd(p) }

func isValidVarNameStart(r byte) bool {
	return (r >= 'A' && r <= 'Z') || (r >= 'a' && r <= 'z') || r == '_' || r >= 0x80
}

func isValidVarName(r byte) bool {
	return (r >= 'A' && r <= 'Z') || (r >= 'a' && r <= 'z') || (r >= '0' && r <= '9') || r == '_' || r >= 0x80
}

var _ = isValidVarNameStart
