package scanner

import (
	"github.com/z7zmey/php-parser/pkg/conf"
	"github.com/z7zmey/php-parser/pkg/errors"
	"github.com/z7zmey/php-parser/pkg/position"
	"github.com/z7zmey/php-parser/pkg/version"
)

type NewLines struct{ data []int }

func (nl *NewLines) GetLine(p int) int { return len(nl.data) + 1 }

type Lexer struct {
	data           []byte
	phpVersion     *version.Version
	errHandlerFunc func(*errors.Error)
	ts, te         int
	newLines       NewLines
}

func NewLexer(data []byte, config conf.Config) *Lexer {
	return &Lexer{data: data, phpVersion: config.Version, errHandlerFunc: config.ErrorHandlerFunc}
}

func (lex *Lexer) error(msg string) {
	if lex.errHandlerFunc == nil {
		return
	}

	pos := position.NewPosition(
		lex.newLines.GetLine(lex.ts),
		lex.newLines.GetLine(lex.te-1),
		lex.ts,
		lex.te,
	)

	lex.errHandlerFunc(errors.NewError(msg, pos))
}

// ok: early-return guard in a copy of the data (buf-readonly fixture)
func (lex *Lexer) lower() []byte {
	out := make([]byte, len(lex.data))
	copy(out, lex.data)
	for i := range out {
		out[i] |= 0x20
	}
	return out
}

// ok: splits at 7.3
func (lex *Lexer) isHeredocEnd() bool {
	o, err := version.New("7.3")
	if err != nil {
		panic(err)
	}
	return lex.phpVersion.GreaterOrEqual(o)
}

// bad: splits 7.3 from 7.4
func (lex *Lexer) bad1() bool {
	o, _ := version.New("7.3")
	return lex.phpVersion.Greater(o)
}

// bad: reads a component
func (lex *Lexer) bad2() bool {
	return lex.phpVersion.Minor == 2
}

// bad: splits the 5.x family
func (lex *Lexer) bad3() bool {
	o, _ := version.New("5.4")
	return lex.phpVersion.Less(o)
}

// undecided: non-constant operand
func (lex *Lexer) bad4(s string) bool {
	o, _ := version.New(s)
	return lex.phpVersion.Less(o)
}
