package scanner

import (
	"github.com/z7zmey/php-parser/pkg/conf"
	"github.com/z7zmey/php-parser/pkg/version"
)

type Lexer struct {
	data       []byte
	phpVersion *version.Version
}

func NewLexer(data []byte, config conf.Config) *Lexer {
	return &Lexer{data: data, phpVersion: config.Version}
}

// ok: splits at 7.3
func (lex *Lexer) isHeredocEnd() bool {
	o, err := version.New("7.3")
	if err != nil {
		panic(err)
	}
	return lex.phpVersion.GreaterOrEqual(o)
}

// bad: splits 7.3 from 7.4
func (lex *Lexer) bad1() bool {
	o, _ := version.New("7.3")
	return lex.phpVersion.Greater(o)
}

// bad: reads a component
func (lex *Lexer) bad2() bool {
	return lex.phpVersion.Minor == 2
}

// bad: splits the 5.x family
func (lex *Lexer) bad3() bool {
	o, _ := version.New("5.4")
	return lex.phpVersion.Less(o)
}

// undecided: non-constant operand
func (lex *Lexer) bad4(s string) bool {
	o, _ := version.New(s)
	return lex.phpVersion.Less(o)
}
