// Package badcb: fixture with every way of mishandling the error callback.
package badcb

import (
	"github.com/z7zmey/php-parser/pkg/ast"
	"github.com/z7zmey/php-parser/pkg/conf"
	"github.com/z7zmey/php-parser/pkg/errors"
)

type P struct {
	errHandlerFunc func(*errors.Error)
	other          *P
	errors         int
	rootNode       ast.Vertex
	data           []byte
}

var fallback = conf.Config{}

// bad (callback-plumbing): the caller's handler is dropped
func New(config conf.Config) *P {
	if config.Version == nil {
		config = fallback
	}
	return NewP(config)
}

// bad (callback-plumbing): field initialised from something else
func NewP(config conf.Config) *P {
	return &P{errHandlerFunc: func(*errors.Error) {}}
}

// bad (cb-guard): no guard
func (p *P) Unguarded(msg string, n *ast.Leaf) {
	p.errHandlerFunc(errors.NewError(msg, n.Position))
}

// bad (cb-guard): guard on another object
func (p *P) WrongGuard(msg string, n *ast.Leaf) {
	if p.other.errHandlerFunc != nil {
		p.errHandlerFunc(errors.NewError(msg, n.Position))
	}
}

// bad (cb-guard): the guard is on the wrong branch
func (p *P) Inverted(msg string, n *ast.Leaf) {
	if p.errHandlerFunc == nil {
		p.errHandlerFunc(errors.NewError(msg, n.Position))
	}
}

// bad (cb-guard who-writes): field of an existing object overwritten
func (p *P) Silence() { p.errHandlerFunc = nil }

// bad (callback-noninterference): state changes only when a handler is set
func (p *P) Counting(msg string, n *ast.Leaf) {
	if p.errHandlerFunc != nil {
		p.errors++
		p.errHandlerFunc(errors.NewError(msg, n.Position))
	}
}

// bad (callback-noninterference): recovery differs when no handler is set
func (p *P) GivesUp(msg string, n *ast.Leaf) {
	if p.errHandlerFunc == nil {
		p.rootNode = nil
		return
	}
	p.errHandlerFunc(errors.NewError(msg, n.Position))
}

// bad (callback-noninterference): handler passed around
func (p *P) Leak() { keep(p.errHandlerFunc) }

func keep(f func(*errors.Error)) {}

// bad (error-forwarding): empty message, no position
func (p *P) Vague() {
	if p.errHandlerFunc != nil {
		p.errHandlerFunc(errors.NewError("", nil))
	}
}

// bad (error-forwarding): not built by NewError
func (p *P) Reuse(e *errors.Error) {
	if p.errHandlerFunc != nil {
		p.errHandlerFunc(&errors.Error{})
	}
}

// ok: guarded, constant message, position of a node
func (p *P) Fine(n *ast.Leaf) {
	if p.errHandlerFunc != nil {
		p.errHandlerFunc(errors.NewError("Key element cannot be a reference", n.Position))
	}
}

// bad (root-only-on-accept): root set outside the start rule
func (p *P) Parse() int {
	p.rootNode = &ast.Root{}
	return 0
}

func (p *P) GetRootNode() ast.Vertex { return p.rootNode }

// bad (buf-readonly): writes the caller's buffer
func (p *P) Scribble() { p.data[0] = 'x' }
func (p *P) Grow(b byte) []byte { return append(p.data, b) }
func (p *P) Fill(src []byte)    { copy(p.data, src) }

// ok (buf-readonly): local copy
func (p *P) Upper() []byte {
	out := append([]byte(nil), p.data...)
	for i := range out {
		out[i] &^= 0x20
	}
	return out
}
