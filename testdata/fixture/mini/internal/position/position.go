// Package position: fixture of the position builder (rule builder-ends).
package position

import (
	"github.com/z7zmey/php-parser/pkg/ast"
	"github.com/z7zmey/php-parser/pkg/position"
	"github.com/z7zmey/php-parser/pkg/token"
)

type startPos struct{ startLine, startPos int }
type endPos struct{ endLine, endPos int }

type pool struct{ n int }

func (p *pool) Get() *position.Position { p.n++; return &position.Position{} }

type Builder struct{ pool *pool }

func NewBuilder() *Builder { return &Builder{pool: &pool{}} }

func getListStartPos(l []ast.Vertex) startPos {
	if len(l) == 0 {
		return startPos{-1, -1}
	}
	return getNodeStartPos(l[0])
}

func getNodeStartPos(n ast.Vertex) startPos {
	sl := -1
	sp := -1
	if n == nil {
		return startPos{-1, -1}
	}
	p := n.GetPosition()
	if p != nil {
		sl = p.StartLine
		sp = p.StartPos
	}
	return startPos{sl, sp}
}

func getListEndPos(l []ast.Vertex) endPos {
	if len(l) == 0 {
		return endPos{-1, -1}
	}
	return getNodeEndPos(l[len(l)-1])
}

func getNodeEndPos(n ast.Vertex) endPos {
	el := -1
	ep := -1
	if n == nil {
		return endPos{-1, -1}
	}
	p := n.GetPosition()
	if p != nil {
		el = p.EndLine
		ep = p.EndPos
	}
	return endPos{el, ep}
}

func (b *Builder) NewTokenPosition(t *token.Token) *position.Position {
	pos := b.pool.Get()
	pos.StartLine = t.Position.StartLine
	pos.EndLine = t.Position.EndLine
	pos.StartPos = t.Position.StartPos
	pos.EndPos = t.Position.EndPos
	return pos
}

func (b *Builder) NewTokensPosition(s *token.Token, e *token.Token) *position.Position {
	pos := b.pool.Get()
	pos.StartLine = s.Position.StartLine
	pos.EndLine = e.Position.EndLine
	pos.StartPos = s.Position.StartPos
	pos.EndPos = e.Position.EndPos
	return pos
}

func (b *Builder) NewNodesPosition(s ast.Vertex, e ast.Vertex) *position.Position {
	pos := b.pool.Get()
	pos.StartLine = getNodeStartPos(s).startLine
	pos.EndLine = getNodeEndPos(e).endLine
	pos.StartPos = getNodeStartPos(s).startPos
	pos.EndPos = getNodeEndPos(e).endPos
	return pos
}

func (b *Builder) NewTokenNodePosition(t *token.Token, n ast.Vertex) *position.Position {
	pos := b.pool.Get()
	pos.StartLine = t.Position.StartLine
	pos.EndLine = getNodeEndPos(n).endLine
	pos.StartPos = t.Position.StartPos
	pos.EndPos = getNodeEndPos(n).endPos
	return pos
}

func (b *Builder) NewNodeListPosition(l []ast.Vertex) *position.Position {
	pos := b.pool.Get()
	pos.StartLine = getListStartPos(l).startLine
	pos.EndLine = getListEndPos(l).endLine
	pos.StartPos = getListStartPos(l).startPos
	pos.EndPos = getListEndPos(l).endPos
	return pos
}

func (b *Builder) NewOptionalListTokensPosition(list []ast.Vertex, t *token.Token, endToken *token.Token) *position.Position {
	pos := b.pool.Get()
	if list == nil {
		pos.StartLine = t.Position.StartLine
		pos.EndLine = endToken.Position.EndLine
		pos.StartPos = t.Position.StartPos
		pos.EndPos = endToken.Position.EndPos
		return pos
	}
	pos.StartLine = getListStartPos(list).startLine
	pos.EndLine = endToken.Position.EndLine
	pos.StartPos = getListStartPos(list).startPos
	pos.EndPos = endToken.Position.EndPos
	return pos
}
