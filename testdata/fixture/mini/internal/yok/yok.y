%{
package yok

import (
    "strconv"

    "github.com/z7zmey/php-parser/pkg/ast"
    "github.com/z7zmey/php-parser/pkg/token"
)
%}

%union{
    node  ast.Vertex
    token *token.Token
    list  []ast.Vertex
}

%token <token> T_A
%token <token> T_OP
%token <token> T_KEY
%token <token> T_END
%token <token> '('
%token <token> ')'
%token <token> ','
%token <token> ':'
%token <token> ';'

%type <node> stmt leaf pair items opt_leaf alt
%type <list> stmt_list

%%

start:
        stmt_list
            {
                yylex.(*Parser).rootNode = &ast.Root{
                    Position: yylex.(*Parser).builder.NewNodeListPosition($1),
                    Stmts: $1,
                    EndTkn: yylex.(*Parser).currentToken,
                }
            }
;

stmt_list:
        stmt_list stmt
            {
                // good (list-index): the element is taken under a length test
                if len($1) > 0 {
                    first := $1[0]
                    _ = first
                }
                if $2 != nil {
                    $$ = append($1, $2)
                }
            }
    |   /* empty */
            {
                $$ = []ast.Vertex{}
            }
;

stmt:
        error
            {
                $$ = nil
            }
    |   pair
            {
                $$ = $1
            }
    |   '(' items ')'
            {
                $$ = &ast.List{
                    Position: yylex.(*Parser).builder.NewTokensPosition($1, $3),
                    OpenTkn: $1,
                    Items: $2.(*ParserSeparatedList).Items,
                    SeparatorTkns: $2.(*ParserSeparatedList).SeparatorTkns,
                    CloseTkn: $3,
                }
            }
    |   alt
            {
                $$ = $1
            }
    |   T_END leaf
            {
                $$ = &ast.Pair{
                    Position: yylex.(*Parser).builder.NewTokenNodePosition($1, $2),
                    OpTkn: $1,
                    Right: $2,
                }
            }
;

alt:
        T_KEY ':' opt_leaf stmt T_END
            {
                if $3 != nil {
                    $$ = &ast.Alt{
                        Position: yylex.(*Parser).builder.NewTokensPosition($1, $5),
                        KeyTkn: $1,
                        ColonTkn: $2,
                        Stmt: &ast.Pair{
                            Position: yylex.(*Parser).builder.NewNodesPosition($3, $4),
                            Left: $3,
                            Right: $4,
                        },
                        EndTkn: $5,
                    }
                } else {
                    $$ = &ast.Alt{
                        Position: yylex.(*Parser).builder.NewTokensPosition($1, $5),
                        KeyTkn: $1,
                        ColonTkn: $2,
                        Stmt: $4,
                        EndTkn: $5,
                    }
                }
            }
;

opt_leaf:
        /* empty */
            {
                $$ = nil
            }
    |   leaf
            {
                $$ = $1
            }
;

items:
        leaf
            {
                $$ = &ParserSeparatedList{
                    Items: []ast.Vertex{$1},
                }
            }
    |   items ',' leaf
            {
                $1.(*ParserSeparatedList).SeparatorTkns = append($1.(*ParserSeparatedList).SeparatorTkns, $2)
                $1.(*ParserSeparatedList).Items = append($1.(*ParserSeparatedList).Items, $3)

                $$ = $1
            }
;

pair:
        leaf T_OP leaf
            {
                $$ = &ast.Pair{
                    Position: yylex.(*Parser).builder.NewNodesPosition($1, $3),
                    Left: $1,
                    OpTkn: $2,
                    Right: $3,
                }
            }
;

leaf:
        T_A
            {
                // ok (int-parse-decimal): numeric leaves are told apart by a decimal parse
                if _, err := strconv.Atoi(string($1.Value)); err == nil {
                    $$ = &ast.Leaf{
                        Position: yylex.(*Parser).builder.NewTokenPosition($1),
                        LeafTkn: $1,
                        Value: $1.Value,
                    }
                } else {
                    $$ = &ast.Leaf{
                        Position: yylex.(*Parser).builder.NewTokenPosition($1),
                        LeafTkn: $1,
                        Value: $1.Value,
                    }
                }
            }
;

%%
