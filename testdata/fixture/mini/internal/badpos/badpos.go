// Package badpos: fixture for rule nilable-pos (positions that are legitimately nil at the end of the input).
package badpos

import (
	"github.com/z7zmey/php-parser/pkg/errors"
	"github.com/z7zmey/php-parser/pkg/token"
)

type Parser struct {
	currentToken *token.Token
}

// bad (nilable-pos): the end-of-input token has no position
func (p *Parser) Line() int { return p.currentToken.Position.StartLine }

// bad (nilable-pos): a copy of the position is a dereference too
func (p *Parser) Copy() int {
	pos := *p.currentToken.Position
	return pos.EndLine
}

// ok (nilable-pos): tested first
func (p *Parser) LineOK() int {
	if p.currentToken.Position != nil {
		return p.currentToken.Position.StartLine
	}
	return 0
}

// bad (nilable-pos): an error reported at the end of the input has no position
func Where(e *errors.Error) int { return e.Pos.StartLine }

// ok (nilable-pos)
func WhereOK(e *errors.Error) int {
	if e.Pos == nil {
		return -1
	}
	return e.Pos.StartLine
}
