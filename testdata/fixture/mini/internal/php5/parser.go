package php5

import (
	"github.com/z7zmey/php-parser/internal/scanner"
	"github.com/z7zmey/php-parser/pkg/ast"
	"github.com/z7zmey/php-parser/pkg/conf"
)

type Parser struct {
	lexer *scanner.Lexer
	root  ast.Vertex
}

func NewParser(lexer *scanner.Lexer, config conf.Config) *Parser { return &Parser{lexer: lexer} }
func (p *Parser) Parse() int                                     { return 0 }
func (p *Parser) GetRootNode() ast.Vertex                        { return p.root }
