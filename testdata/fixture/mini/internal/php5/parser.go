package php5

import (
	"github.com/z7zmey/php-parser/internal/scanner"
	"github.com/z7zmey/php-parser/pkg/ast"
	"github.com/z7zmey/php-parser/pkg/conf"
	"github.com/z7zmey/php-parser/pkg/errors"
	"github.com/z7zmey/php-parser/pkg/token"
)

type Parser struct {
	Lexer          *scanner.Lexer
	currentToken   *token.Token
	rootNode       ast.Vertex
	errHandlerFunc func(*errors.Error)
}

func NewParser(lexer *scanner.Lexer, config conf.Config) *Parser {
	return &Parser{Lexer: lexer, errHandlerFunc: config.ErrorHandlerFunc}
}

func (p *Parser) Error(msg string) {
	if p.errHandlerFunc == nil {
		return
	}
	p.errHandlerFunc(errors.NewError(msg, p.currentToken.Position))
}

// report: forwarding helper used by grammar actions
func (p *Parser) report(e *errors.Error) {
	if p.errHandlerFunc != nil {
		p.errHandlerFunc(e)
	}
}

func (p *Parser) Parse() int {
	p.rootNode = nil
	return (&yyParserImpl{}).Parse(p)
}

func (p *Parser) GetRootNode() ast.Vertex { return p.rootNode }

type yyLexer interface{ Error(string) }

type yyParserImpl struct{}

func (*yyParserImpl) Parse(yylex yyLexer) int {
	yynt := 1
	var leaf *ast.Leaf
	switch yynt {
	case 1:
		yylex.(*Parser).rootNode = &ast.Root{}
	case 2:
		leaf = &ast.Leaf{}
		yylex.(*Parser).report(errors.NewError("Key element cannot be a reference", leaf.Position))
	}
	return 0
}
