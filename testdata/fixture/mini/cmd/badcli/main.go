package main

import (
	"flag"
	"io"

	"github.com/z7zmey/php-parser/pkg/ast"
	"github.com/z7zmey/php-parser/pkg/visitor/printer"
)

var verbose *bool
var level int
var total int

type job struct{ n int }

func main() {
	in := make(chan int, 1)
	shared := &job{}
	go worker(in, shared)
	verbose = flag.Bool("v", false, "")
	flag.IntVar(&level, "l", 0, "")
	flag.Parse()
	roots := make(chan *ast.Root)
	for i := 0; i < 2; i++ {
		go printAll(roots) // bad (single-consumer): two goroutines write results to the one output
	}
	in <- 1
}

func worker(in <-chan int, j *job) {
	for v := range in {
		total += v
		j.n++
	}
}

func helper() { level = 3 }

type msg struct{ items []int }

// bad (send-fresh): the buffer is declared once and re-used for every message
func collector(in <-chan int, out chan<- msg) {
	var buf []int
	for v := range in {
		buf = buf[:0]
		buf = append(buf, v)
		out <- msg{items: buf}
	}
}

// bad (visitor-per-item): one printer for every tree, its mode and last chunk survive from tree to tree
func printAll(in <-chan *ast.Root) {
	p := printer.NewPrinter(io.Discard)
	for r := range in {
		r.Accept(p)
	}
}

var depth int

// bad (globals-assigned): the short declaration makes a local; the package-level depth stays 0 for ever
func configure(s string) {
	depth, err := parseDepth(s)
	_, _ = depth, err
}

func parseDepth(s string) (int, error) { return len(s), nil }

func limit() int { return depth * 2 }
