package main

import (
	"flag"
	"io"
	"sync"

	"github.com/z7zmey/php-parser/pkg/ast"
	"github.com/z7zmey/php-parser/pkg/visitor/printer"
)

var wg sync.WaitGroup
var verbose *bool
var level int

func main() {
	verbose = flag.Bool("v", false, "")
	flag.IntVar(&level, "l", 0, "")
	flag.Parse()
	in := make(chan int, 1)
	out := make(chan int, 1)
	for i := 0; i < 2; i++ {
		go worker(in, out)
	}
	roots := make(chan *ast.Root)
	go printAll(roots) // ok (single-consumer): one goroutine writes the results
	wg.Add(1)
	in <- 1
	wg.Wait()
}

func worker(in <-chan int, out chan<- int) {
	for v := range in {
		if *verbose {
			v += level
		}
		out <- v
		wg.Done()
	}
}

type msg struct{ items []int }

// ok (send-fresh): a fresh slice per message
func collector(in <-chan int, out chan<- msg) {
	for v := range in {
		var buf []int
		buf = append(buf, v)
		out <- msg{items: buf}
	}
}

// ok (visitor-per-item): a printer per tree
func printAll(in <-chan *ast.Root) {
	for r := range in {
		p := printer.NewPrinter(io.Discard)
		r.Accept(p)
	}
}
