%{
package bad7
%}

%union{
    node  int
    token int
    list  []int
}

%token <token> T_IF
%token <token> T_ELSE
%token <token> T_ELSEIF
%token <token> T_VARIABLE
%token <token> T_INSTANCEOF
%token <token> T_POW
%token <token> T_INC
%token <token> T_COALESCE
%token <token> T_FN
%token <token> '+'
%token <token> '-'
%token <token> '*'
%token <token> '!'
%token <token> ';'
%token <token> '('
%token <token> ')'

%right T_COALESCE
%left '+'
%right '*'
%nonassoc T_INSTANCEOF
%right T_INC '!'
%right T_POW
%left T_NOELSE
%left T_ELSEIF
%left T_ELSE

%type <node> top_statement statement expr if_stmt_without_else if_stmt inner_statement
%type <list> top_statement_list inner_statement_list

%%

start:
        top_statement_list { }
;

top_statement_list:
        top_statement_list top_statement { }
    |   /* empty */ { }
;

top_statement:
        error { }
    |   statement { }
;

inner_statement_list:
        inner_statement_list inner_statement { }
    |   /* empty */ { }
;

inner_statement:
        statement { }
;

statement:
        expr ';' { }
    |   T_FN expr ';' { }
    |   if_stmt { }
    |   '(' inner_statement_list ')' { }
    |   '(' error ')' { }
;

if_stmt_without_else:
        T_IF '(' expr ')' statement { }
    |   if_stmt_without_else T_ELSEIF '(' expr ')' statement { }
;

if_stmt:
        if_stmt_without_else %prec T_ELSE { }
    |   if_stmt_without_else T_ELSE statement { }
;

expr:
        T_VARIABLE { }
    |   expr '+' expr { }
    |   expr '-' expr { }
    |   expr '*' expr %prec T_INC { }
    |   expr T_POW expr { }
    |   expr T_COALESCE expr { }
    |   expr T_INSTANCEOF T_VARIABLE { }
    |   '!' expr { }
    |   '+' expr %prec T_INC { }
    |   '-' expr { }
;

%%
