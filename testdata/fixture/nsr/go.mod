module github.com/z7zmey/php-parser

go 1.13
