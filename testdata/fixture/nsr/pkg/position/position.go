package position

type Position struct{ StartLine, EndLine, StartPos, EndPos int }
