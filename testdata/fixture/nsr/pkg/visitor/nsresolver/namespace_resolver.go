package nsresolver

import (
	"errors"
	"strings"

	"github.com/z7zmey/php-parser/pkg/ast"
	"github.com/z7zmey/php-parser/pkg/visitor"
)

type NamespaceResolver struct {
	visitor.Null
	Namespace     *Namespace
	ResolvedNames map[ast.Vertex]string
}

func NewNamespaceResolver() *NamespaceResolver {
	return &NamespaceResolver{Namespace: NewNamespace(""), ResolvedNames: map[ast.Vertex]string{}}
}

func (nsr *NamespaceResolver) StmtNamespace(n *ast.StmtNamespace) {
	if n.Name == nil {
		nsr.Namespace = NewNamespace("")
	} else {
		NSParts := n.Name.(*ast.Name).Parts
		nsr.Namespace = NewNamespace(concatNameParts(NSParts))
	}
}

func (nsr *NamespaceResolver) StmtClass(n *ast.StmtClass) {
	if n.Extends != nil {
		nsr.ResolveName(n.Extends, "")
	}
	for _, interfaceName := range n.Implements {
		nsr.ResolveName(interfaceName, "")
	}
	if n.Name != nil {
		nsr.AddNamespacedName(n, string(n.Name.(*ast.Identifier).Value))
	}
}

func (nsr *NamespaceResolver) StmtInterface(n *ast.StmtInterface) {
	for _, interfaceName := range n.Extends {
		nsr.ResolveName(interfaceName, "")
	}
	nsr.AddNamespacedName(n, string(n.Name.(*ast.Identifier).Value))
}

func (nsr *NamespaceResolver) StmtTrait(n *ast.StmtTrait) {
	nsr.AddNamespacedName(n, string(n.Name.(*ast.Identifier).Value))
}

func (nsr *NamespaceResolver) StmtFunction(n *ast.StmtFunction) {
	nsr.AddNamespacedName(n, string(n.Name.(*ast.Identifier).Value))
	for _, parameter := range n.Params {
		nsr.ResolveType(parameter.(*ast.Parameter).Type)
	}
	if n.ReturnType != nil {
		nsr.ResolveType(n.ReturnType)
	}
}

func (nsr *NamespaceResolver) ExprClosure(n *ast.ExprClosure) {
	for _, parameter := range n.Params {
		nsr.ResolveType(parameter.(*ast.Parameter).Type)
	}
	if n.ReturnType != nil {
		nsr.ResolveType(n.ReturnType)
	}
}

func (nsr *NamespaceResolver) StmtPropertyList(n *ast.StmtPropertyList) {
	if n.Type != nil {
		nsr.ResolveType(n.Type)
	}
}

func (nsr *NamespaceResolver) StmtConstList(n *ast.StmtConstList) {
	for _, constant := range n.Consts {
		nsr.AddNamespacedName(constant, string(constant.(*ast.StmtConstant).Name.(*ast.Identifier).Value))
	}
}

func (nsr *NamespaceResolver) ExprNew(n *ast.ExprNew)                   { nsr.ResolveName(n.Class, "") }
func (nsr *NamespaceResolver) ExprFunctionCall(n *ast.ExprFunctionCall) { nsr.ResolveName(n.Function, "function") }
func (nsr *NamespaceResolver) ExprConstFetch(n *ast.ExprConstFetch)     { nsr.ResolveName(n.Const, "const") }

func (nsr *NamespaceResolver) StmtCatch(n *ast.StmtCatch) {
	for _, t := range n.Types {
		nsr.ResolveName(t, "")
	}
}

func (nsr *NamespaceResolver) AddNamespacedName(nn ast.Vertex, nodeName string) {
	if nsr.Namespace.Namespace == "" {
		nsr.ResolvedNames[nn] = nodeName
	} else {
		nsr.ResolvedNames[nn] = nsr.Namespace.Namespace + "\\" + nodeName
	}
}

func (nsr *NamespaceResolver) ResolveName(nameNode ast.Vertex, aliasType string) {
	resolved, err := nsr.Namespace.ResolveName(nameNode, aliasType)
	if err == nil {
		nsr.ResolvedNames[nameNode] = resolved
	}
}

func (nsr *NamespaceResolver) ResolveType(n ast.Vertex) {
	switch nn := n.(type) {
	case *ast.Nullable:
		nsr.ResolveType(nn.Expr)
	case *ast.Name:
		nsr.ResolveName(n, "")
	case *ast.NameRelative:
		nsr.ResolveName(n, "")
	case *ast.NameFullyQualified:
		nsr.ResolveName(n, "")
	}
}

type Namespace struct {
	Namespace string
	Aliases   map[string]map[string]string
}

func NewNamespace(NSName string) *Namespace {
	return &Namespace{Namespace: NSName, Aliases: map[string]map[string]string{"": {}, "const": {}, "function": {}}}
}

func (ns *Namespace) AddAlias(aliasType string, aliasName string, alias string) {
	aliasType = strings.ToLower(aliasType)

	if aliasType == "const" {
		ns.Aliases[aliasType][alias] = aliasName
	} else {
		ns.Aliases[aliasType][strings.ToLower(alias)] = aliasName
	}
}

func (ns *Namespace) ResolveName(nameNode ast.Vertex, aliasType string) (string, error) {
	switch n := nameNode.(type) {
	case *ast.NameFullyQualified:
		return concatNameParts(n.Parts), nil
	case *ast.NameRelative:
		if ns.Namespace == "" {
			return concatNameParts(n.Parts), nil
		}
		return ns.Namespace + "\\" + concatNameParts(n.Parts), nil
	case *ast.Name:
		if aliasType == "const" && len(n.Parts) == 1 {
			part := strings.ToLower(string(n.Parts[0].(*ast.NamePart).Value))
			if part == "true" || part == "false" || part == "null" {
				return part, nil
			}
		}
		if aliasType == "" && len(n.Parts) == 1 {
			part := strings.ToLower(string(n.Parts[0].(*ast.NamePart).Value))
			switch part {
			case "self", "static", "parent", "int", "float", "bool", "string", "void", "iterable", "object":
				return part, nil
			}
		}
		aliasName, err := ns.ResolveAlias(nameNode, aliasType)
		if err != nil {
			if ns.Namespace == "" {
				return concatNameParts(n.Parts), nil
			}
			return ns.Namespace + "\\" + concatNameParts(n.Parts), nil
		}
		if len(n.Parts) > 1 {
			return aliasName + "\\" + concatNameParts(n.Parts[1:]), nil
		}
		return aliasName, nil
	}
	return "", errors.New("must be instance of name.Names")
}

func (ns *Namespace) ResolveAlias(nameNode ast.Vertex, aliasType string) (string, error) {
	aliasType = strings.ToLower(aliasType)
	nameParts := nameNode.(*ast.Name).Parts

	firstPartStr := string(nameParts[0].(*ast.NamePart).Value)

	if len(nameParts) > 1 {
		firstPartStr = strings.ToLower(firstPartStr)
		aliasType = ""
	} else {
		if aliasType != "const" {
			firstPartStr = strings.ToLower(firstPartStr)
		}
	}

	aliasName, ok := ns.Aliases[aliasType][firstPartStr]
	if !ok {
		return "", errors.New("Not found")
	}

	return aliasName, nil
}

func concatNameParts(parts ...[]ast.Vertex) string {
	str := ""
	for _, p := range parts {
		for _, n := range p {
			if str == "" {
				str = string(n.(*ast.NamePart).Value)
			} else {
				str = str + "\\" + string(n.(*ast.NamePart).Value)
			}
		}
	}
	return str
}

// ok (item-independence): out and seen are accumulators, the kind is chosen per element
func kindsOf(list []ast.Vertex) []string {
	var out []string
	seen := 0
	first := ""
	for _, t := range list {
		kind := ""
		if _, ok := t.(*ast.NameFullyQualified); ok {
			kind = "function"
		}
		if first == "" {
			first = kind
		} else {
			first = first + "," + kind
		}
		out = append(out, kind)
		seen++
	}
	_, _ = seen, first
	return out
}
