package visitor

import "github.com/z7zmey/php-parser/pkg/ast"

type Null struct{}

func (v *Null) Root(_ *ast.Root) {}
func (v *Null) Name(_ *ast.Name) {}
func (v *Null) NameRelative(_ *ast.NameRelative) {}
func (v *Null) NameFullyQualified(_ *ast.NameFullyQualified) {}
func (v *Null) NamePart(_ *ast.NamePart) {}
func (v *Null) Identifier(_ *ast.Identifier) {}
func (v *Null) Nullable(_ *ast.Nullable) {}
func (v *Null) Parameter(_ *ast.Parameter) {}
func (v *Null) StmtNamespace(_ *ast.StmtNamespace) {}
func (v *Null) StmtUse(_ *ast.StmtUse) {}
func (v *Null) StmtClass(_ *ast.StmtClass) {}
func (v *Null) StmtInterface(_ *ast.StmtInterface) {}
func (v *Null) StmtTrait(_ *ast.StmtTrait) {}
func (v *Null) StmtFunction(_ *ast.StmtFunction) {}
func (v *Null) StmtConstList(_ *ast.StmtConstList) {}
func (v *Null) StmtConstant(_ *ast.StmtConstant) {}
func (v *Null) StmtPropertyList(_ *ast.StmtPropertyList) {}
func (v *Null) ExprClosure(_ *ast.ExprClosure) {}
func (v *Null) ExprNew(_ *ast.ExprNew) {}
func (v *Null) ExprFunctionCall(_ *ast.ExprFunctionCall) {}
func (v *Null) ExprConstFetch(_ *ast.ExprConstFetch) {}
func (v *Null) StmtCatch(_ *ast.StmtCatch) {}
