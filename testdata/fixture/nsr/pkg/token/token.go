package token

import "github.com/z7zmey/php-parser/pkg/position"

type ID int

type Token struct {
	ID ID
	Value []byte
	Position *position.Position
	FreeFloating []*Token
}
