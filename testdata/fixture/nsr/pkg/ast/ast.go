package ast

import "github.com/z7zmey/php-parser/pkg/position"

type Vertex interface {
	Accept(v Visitor)
	GetPosition() *position.Position
}

type Visitor interface {
	Root(n *Root)
	Name(n *Name)
	NameRelative(n *NameRelative)
	NameFullyQualified(n *NameFullyQualified)
	NamePart(n *NamePart)
	Identifier(n *Identifier)
	Nullable(n *Nullable)
	Parameter(n *Parameter)
	StmtNamespace(n *StmtNamespace)
	StmtUse(n *StmtUse)
	StmtClass(n *StmtClass)
	StmtInterface(n *StmtInterface)
	StmtTrait(n *StmtTrait)
	StmtFunction(n *StmtFunction)
	StmtConstList(n *StmtConstList)
	StmtConstant(n *StmtConstant)
	StmtPropertyList(n *StmtPropertyList)
	ExprClosure(n *ExprClosure)
	ExprNew(n *ExprNew)
	ExprFunctionCall(n *ExprFunctionCall)
	ExprConstFetch(n *ExprConstFetch)
	StmtCatch(n *StmtCatch)
}

type Root struct {
	Position *position.Position
	Stmts []Vertex
}

func (n *Root) Accept(v Visitor) { v.Root(n) }
func (n *Root) GetPosition() *position.Position { return n.Position }

type Name struct {
	Position *position.Position
	Parts []Vertex
}

func (n *Name) Accept(v Visitor) { v.Name(n) }
func (n *Name) GetPosition() *position.Position { return n.Position }

type NameRelative struct {
	Position *position.Position
	Parts []Vertex
}

func (n *NameRelative) Accept(v Visitor) { v.NameRelative(n) }
func (n *NameRelative) GetPosition() *position.Position { return n.Position }

type NameFullyQualified struct {
	Position *position.Position
	Parts []Vertex
}

func (n *NameFullyQualified) Accept(v Visitor) { v.NameFullyQualified(n) }
func (n *NameFullyQualified) GetPosition() *position.Position { return n.Position }

type NamePart struct {
	Position *position.Position
	Value []byte
}

func (n *NamePart) Accept(v Visitor) { v.NamePart(n) }
func (n *NamePart) GetPosition() *position.Position { return n.Position }

type Identifier struct {
	Position *position.Position
	Value []byte
}

func (n *Identifier) Accept(v Visitor) { v.Identifier(n) }
func (n *Identifier) GetPosition() *position.Position { return n.Position }

type Nullable struct {
	Position *position.Position
	Expr Vertex
}

func (n *Nullable) Accept(v Visitor) { v.Nullable(n) }
func (n *Nullable) GetPosition() *position.Position { return n.Position }

type Parameter struct {
	Position *position.Position
	Type Vertex
	Var Vertex
}

func (n *Parameter) Accept(v Visitor) { v.Parameter(n) }
func (n *Parameter) GetPosition() *position.Position { return n.Position }

type StmtNamespace struct {
	Position *position.Position
	Name Vertex
	Stmts []Vertex
}

func (n *StmtNamespace) Accept(v Visitor) { v.StmtNamespace(n) }
func (n *StmtNamespace) GetPosition() *position.Position { return n.Position }

type StmtUse struct {
	Position *position.Position
	Type Vertex
	Use Vertex
	Alias Vertex
}

func (n *StmtUse) Accept(v Visitor) { v.StmtUse(n) }
func (n *StmtUse) GetPosition() *position.Position { return n.Position }

type StmtClass struct {
	Position *position.Position
	Name Vertex
	Extends Vertex
	Implements []Vertex
	Stmts []Vertex
}

func (n *StmtClass) Accept(v Visitor) { v.StmtClass(n) }
func (n *StmtClass) GetPosition() *position.Position { return n.Position }

type StmtInterface struct {
	Position *position.Position
	Name Vertex
	Extends []Vertex
}

func (n *StmtInterface) Accept(v Visitor) { v.StmtInterface(n) }
func (n *StmtInterface) GetPosition() *position.Position { return n.Position }

type StmtTrait struct {
	Position *position.Position
	Name Vertex
}

func (n *StmtTrait) Accept(v Visitor) { v.StmtTrait(n) }
func (n *StmtTrait) GetPosition() *position.Position { return n.Position }

type StmtFunction struct {
	Position *position.Position
	Name Vertex
	Params []Vertex
	ReturnType Vertex
}

func (n *StmtFunction) Accept(v Visitor) { v.StmtFunction(n) }
func (n *StmtFunction) GetPosition() *position.Position { return n.Position }

type StmtConstList struct {
	Position *position.Position
	Consts []Vertex
}

func (n *StmtConstList) Accept(v Visitor) { v.StmtConstList(n) }
func (n *StmtConstList) GetPosition() *position.Position { return n.Position }

type StmtConstant struct {
	Position *position.Position
	Name Vertex
	Expr Vertex
}

func (n *StmtConstant) Accept(v Visitor) { v.StmtConstant(n) }
func (n *StmtConstant) GetPosition() *position.Position { return n.Position }

type StmtPropertyList struct {
	Position *position.Position
	Type Vertex
	Props []Vertex
}

func (n *StmtPropertyList) Accept(v Visitor) { v.StmtPropertyList(n) }
func (n *StmtPropertyList) GetPosition() *position.Position { return n.Position }

type ExprClosure struct {
	Position *position.Position
	Params []Vertex
	ReturnType Vertex
}

func (n *ExprClosure) Accept(v Visitor) { v.ExprClosure(n) }
func (n *ExprClosure) GetPosition() *position.Position { return n.Position }

type ExprNew struct {
	Position *position.Position
	Class Vertex
}

func (n *ExprNew) Accept(v Visitor) { v.ExprNew(n) }
func (n *ExprNew) GetPosition() *position.Position { return n.Position }

type ExprFunctionCall struct {
	Position *position.Position
	Function Vertex
}

func (n *ExprFunctionCall) Accept(v Visitor) { v.ExprFunctionCall(n) }
func (n *ExprFunctionCall) GetPosition() *position.Position { return n.Position }

type ExprConstFetch struct {
	Position *position.Position
	Const Vertex
}

func (n *ExprConstFetch) Accept(v Visitor) { v.ExprConstFetch(n) }
func (n *ExprConstFetch) GetPosition() *position.Position { return n.Position }

type StmtCatch struct {
	Position *position.Position
	Types []Vertex
}

func (n *StmtCatch) Accept(v Visitor) { v.StmtCatch(n) }
func (n *StmtCatch) GetPosition() *position.Position { return n.Position }
