// normdump prints the normalised body of a method (development aid).
// usage: normdump <repo> <pkg rel> <recv> <method>
package main

import (
	"fmt"
	"go/printer"
	"go/token"
	"os"

	"verif/internal/load"
	"verif/internal/norm"
)

func main() {
	p, err := load.Load(os.Args[1], false)
	if err != nil {
		fmt.Println(err)
		os.Exit(2)
	}
	pk := p.Pkg(os.Args[2])
	fd := load.Methods(pk, os.Args[3])[os.Args[4]]
	nz := norm.New(pk, norm.Options{})
	b := nz.Body(fd)
	printer.Fprint(os.Stdout, token.NewFileSet(), b)
	fmt.Println()
}
