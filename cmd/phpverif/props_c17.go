package main

import (
	"strings"

	"verif/internal/kinds"
	"verif/internal/load"
	"verif/internal/report"
	"verif/internal/visitors"
)

// presence merges TreePresence of both grammars: a field is "always set" only if both guarantee it.
func (c *Ctx) presence() *visitors.FieldPresence {
	fp := &visitors.FieldPresence{Always: map[string]bool{}, NonEmpty: map[string]bool{}, NonEmptyIfSet: map[string]bool{}, Known: map[string]bool{}, CoSet: map[string]map[string]bool{}}
	first := map[string]bool{}
	for _, label := range []string{"php5", "php7"} {
		f, sh := c.flow(c.Repo, label)
		if f == nil {
			return nil
		}
		for t, p := range f.TreePresence(sh) {
			if !strings.HasPrefix(t, "ast.") {
				continue
			}
			k := strings.TrimPrefix(t, "ast.")
			if !first[k] {
				first[k] = true
				fp.Known[k] = true
				for fld := range p.Always {
					fp.Always[k+"."+fld] = true
				}
				for fld := range p.NonEmpty {
					fp.NonEmpty[k+"."+fld] = true
				}
				for fld := range p.NonEmptyIfSet {
					fp.NonEmptyIfSet[k+"."+fld] = true
				}
				continue
			}
			for key := range fp.NonEmptyIfSet {
				if strings.HasPrefix(key, k+".") && !p.NonEmptyIfSet[strings.TrimPrefix(key, k+".")] {
					delete(fp.NonEmptyIfSet, key)
				}
			}
			for key := range fp.Always {
				if strings.HasPrefix(key, k+".") && !p.Always[strings.TrimPrefix(key, k+".")] {
					delete(fp.Always, key)
				}
			}
			for key := range fp.NonEmpty {
				if strings.HasPrefix(key, k+".") && !p.NonEmpty[strings.TrimPrefix(key, k+".")] {
					delete(fp.NonEmpty, key)
				}
			}
		}
	}
	// tokens tied to a child: intersect the co-occurrence sets of both grammars
	seen := map[string]bool{}
	for _, label := range []string{"php5", "php7"} {
		f, sh := c.flow(c.Repo, label)
		for t, m := range f.CoSet(sh) {
			if !strings.HasPrefix(t, "ast.") {
				continue
			}
			k := strings.TrimPrefix(t, "ast.")
			for fld, with := range m {
				key := k + "." + fld
				if !seen[key] {
					seen[key] = true
					fp.CoSet[key] = map[string]bool{}
					for g := range with {
						fp.CoSet[key][g] = true
					}
					continue
				}
				for g := range fp.CoSet[key] {
					if !with[g] {
						delete(fp.CoSet[key], g)
					}
				}
			}
		}
	}
	return fp
}

// fmtFixtures runs the formatter rules on the mini module's good and broken formatter.
func (c *Ctx) fmtFixtures() {
	pres := &visitors.FieldPresence{
		Always:        map[string]bool{"Pair.Left": true, "Pair.Right": true, "Leaf.LeafTkn": true},
		NonEmpty:      map[string]bool{},
		NonEmptyIfSet: map[string]bool{},
		Known:         map[string]bool{"Pair": true, "List": true, "Alt": true, "Block": true, "Root": true, "Leaf": true},
		CoSet:         map[string]map[string]bool{},
	}
	for _, k := range []string{"B1", "B2", "B3", "B4", "B5", "B6", "B7", "B8"} {
		pres.Known[k] = true
	}
	for _, rule := range []string{"fmt-nil-safe", "fmt-visits-all", "fmt-sets-all-tokens", "fmt-once", "fmt-lexeme"} {
		rule := rule
		c.Fixture("mini", rule, false, func(p *load.Program, tb *kinds.Table) *report.RuleResult {
			_, pf := visitors.PrintSlotsFacts(p, tb)
			pick := func(a, b, cc, d, e *report.RuleResult) *report.RuleResult {
				for _, r := range []*report.RuleResult{a, b, cc, d, e} {
					if r.Rule == rule {
						return r
					}
				}
				return nil
			}
			good := pick(visitors.FormatRules(p, tb, pres, pf, "pkg/visitor/formatter", "formatter"))
			bad := pick(visitors.FormatRules(p, tb, pres, pf, "pkg/visitor/badformatter", "formatter"))
			good.Merge(bad, "bad:")
			return good
		})
	}
}

func init() {
	delete(notApplicable, "C17")
	properties["C17"] = &Property{
		Level:     "other",
		LevelText: "Necessary conditions only, decided for all 155 formatter methods on every path: (fmt-nil-safe) a child that the grammars can leave nil (computed from the grammar actions: the fields set in every object of that kind that reaches a tree) is formatted only under a nil test, and separator slices are allocated only for lists the grammars never leave empty or under a length test - otherwise formatting a parsed tree panics; (fmt-visits-all) every child slot is formatted on every path on which it may be present; (fmt-sets-all-tokens) every token slot is replaced by a canonical token or cleared (keeping the source token is allowed only for leaf kinds whose text is the node's value), every separator list is rebuilt - otherwise source trivia survives and the output depends on the input layout; (fmt-once) no token slot receives two fresh tokens and no child is formatted twice on a path; (fmt-lexeme) the lexeme written into a slot is the printer's own default for that slot. Not decided: that the printed result re-parses to the same structure, canonicity and idempotence of the produced text as a whole, and lossy canonicalisation of tokens whose spelling carries meaning (a nowdoc opener replaced by a heredoc opener) - value-level behaviour no structural rule sees.",
		LevelNote: "The formatter violates several of these conditions on the pinned tree; each violating slot is a known finding with a failing input.",
		Technique: "static analysis: typed-AST slot-event extraction over all formatter methods with path enumeration, cross-checked with field-presence facts from abstract interpretation of the grammar actions and with the printer's default lexemes",
		Engine:    "visitors",
		Explanation: "fmt-nil-safe, fmt-visits-all, fmt-sets-all-tokens, fmt-once, fmt-lexeme on pkg/visitor/formatter with field presence from both grammars.",
		TrustedBase: yyTrusted,
		Floors: []report.Floor{
			{Rule: "fmt-nil-safe", What: "methods", Min: 155},
			{Rule: "fmt-sets-all-tokens", What: "methods", Min: 155},
			{Rule: "fmt-lexeme", What: "lexemes", Min: 200},
		},
		Run: func(c *Ctx) {
			defer c.cleanup()
			c.fmtFixtures()
			p, tb, ok := c.RepoProgram(false)
			if !ok {
				return
			}
			pres := c.presence()
			if pres == nil {
				return
			}
			_, pf := visitors.PrintSlotsFacts(p, tb)
			a, b, cc, d, e := visitors.FormatRules(p, tb, pres, pf, "pkg/visitor/formatter", "formatter")
			for _, r := range []*report.RuleResult{a, b, cc, d, e} {
				c.Add(r)
			}
			c.byteClasses()
		},
	}
}
