package main

import (
	"os"
	"path/filepath"

	"verif/internal/report"
	"verif/internal/yacc"
)

// langs loads and regenerates both grammars of the tree in dir (cached per run).
func (c *Ctx) lang(dir, label string) *yacc.Lang {
	key := dir + "|" + label
	if c.langs == nil {
		c.langs = map[string]*yacc.Lang{}
	}
	if l, ok := c.langs[key]; ok {
		return l
	}
	goyacc := filepath.Join(c.Verif, "bin", "goyacc")
	if _, err := os.Stat(goyacc); err != nil {
		c.Fail("tables-sync", label+"/goyacc", "bin/goyacc not built (run MANIFEST.setup_cmd or ./check)")
		c.langs[key] = nil
		return nil
	}
	l, cleanup, err := yacc.LoadLang(dir, goyacc, label)
	if err != nil {
		c.Fail("tables-sync", label+"/grammar", "grammar: "+err.Error())
		c.langs[key] = nil
		return nil
	}
	c.cleanups = append(c.cleanups, cleanup)
	for _, pr := range l.G.Problems {
		c.Fail("tables-sync", label+"/grammar:"+pr, "grammar reader: "+pr)
	}
	c.langs[key] = l
	return l
}

// yaccFixture runs fn on the ok7/bad7 fixture grammars and compares with expect.json.
func (c *Ctx) yaccFixture(rule string, fn func(ok, bad *yacc.Lang) *report.RuleResult) {
	if c.NoFixtures {
		return
	}
	dir := filepath.Join(c.Verif, "testdata", "fixture", "yacc")
	ok, bad := c.lang(dir, "ok7"), c.lang(dir, "bad7")
	if ok == nil || bad == nil {
		c.Run.FixtureFails = append(c.Run.FixtureFails, "yacc:"+rule+": fixture grammars could not be loaded")
		return
	}
	c.compareFixture("yacc", rule, dir, fn(ok, bad))
}

func both(fn func(*yacc.Lang) *report.RuleResult) func(ok, bad *yacc.Lang) *report.RuleResult {
	return func(ok, bad *yacc.Lang) *report.RuleResult {
		r := fn(ok)
		r2 := fn(bad)
		r.Obls = append(r.Obls, r2.Obls...)
		return r
	}
}

// grammarRule runs a per-grammar rule on the fixtures and on both grammars of /repo.
func (c *Ctx) grammarRule(rule string, fn func(*yacc.Lang) *report.RuleResult) {
	c.yaccFixture(rule, both(fn))
	res := report.NewResult(rule)
	for _, label := range []string{"php5", "php7"} {
		l := c.lang(c.Repo, label)
		if l == nil {
			continue
		}
		r := fn(l)
		res.Obls = append(res.Obls, r.Obls...)
		for k, v := range r.Instances {
			res.Instances[k] += v
		}
		res.Units = append(res.Units, r.Units...)
	}
	c.Add(res)
}

func syncRule(l *yacc.Lang) *report.RuleResult {
	return yacc.Sync(l.Label, l.Committed, l.A.GoFile, l.G)
}

func init() {
	delete(notApplicable, "C03")
	properties["C03"] = &Property{
		Level:     "other",
		LevelText: "Decides the structural clauses of the property for both grammars: the LALR tables and driver compiled into the binary are exactly what goyacc generates from the grammar files (tables-sync, skeleton-sync), so the grammar file is the language; operator precedence and associativity agree, pair by pair, with PHP's documented operator table (prec-oracle, an oracle encoded in the checker); every state that can either shift else/elseif or reduce an if shifts (else-binds-nearest); the conflicts goyacc leaves unresolved are exactly the reviewed ones, which are PHP's own (conflicts-triaged); PHP 7-only tokens occur in no PHP 5 production (family-only-tokens). Not decided: acceptance of every valid program (language equivalence with PHP's reference grammar is out of reach offline), and the node built by each production (decided by the yyflow rules when claimed).",
		LevelNote: "Trusted: goyacc from x/tools v0.29.0 (built offline from the module cache) as the reference generator; the .y reader (cross-checked against yyR1/yyR2 on every run); the operator table of the PHP manual as encoded in internal/yacc/rules.go.",
		Technique: "static analysis: regeneration of the LALR automaton and table/driver equivalence; relational precedence check against an oracle table; automaton-state rules",
		Engine:    "yacc",
		Explanation: "tables-sync (11 tables, token names, constants, production numbering, 8 driver functions per grammar), prec-oracle, else-binds-nearest, conflicts-triaged, family-only-tokens on internal/php5 and internal/php7.",
		TrustedBase: append([]string{"goyacc (golang.org/x/tools v0.29.0/cmd/goyacc)"}, baseTrusted...),
		Floors: []report.Floor{
			{Rule: "tables-sync", What: "tables", Min: 22},
			{Rule: "tables-sync", What: "productions", Min: 1014},
			{Rule: "tables-sync", What: "skeleton-funcs", Min: 16},
			{Rule: "prec-oracle", What: "operators", Min: 100},
			{Rule: "prec-oracle", What: "unary-rules", Min: 4},
			{Rule: "else-binds-nearest", What: "states", Min: 3},
			{Rule: "conflicts-triaged", What: "conflicts", Min: 5},
			{Rule: "family-only-tokens", What: "tokens", Min: 5},
		},
		Run: func(c *Ctx) {
			defer c.cleanup()
			c.grammarRule("tables-sync", syncRule)
			c.grammarRule("prec-oracle", yacc.PrecOracle)
			c.grammarRule("else-binds-nearest", yacc.ElseBindsNearest)
			c.grammarRule("conflicts-triaged", yacc.ConflictsTriaged)
			c.yaccFixture("family-only-tokens", func(ok, bad *yacc.Lang) *report.RuleResult { return yacc.FamilyOnlyTokens(ok, bad) })
			if l5, l7 := c.lang(c.Repo, "php5"), c.lang(c.Repo, "php7"); l5 != nil && l7 != nil {
				c.Add(yacc.FamilyOnlyTokens(l5, l7))
			}
		},
	}
	delete(notApplicable, "C07")
	properties["C07"] = &Property{
		Level:     "other",
		LevelText: "Decides the structural conditions of statement-level recovery for both grammars: the compiled automaton is the grammar's and the driver is the stock goyacc driver (tables-sync/skeleton-sync), whose recovery pops to a state that shifts `error`; `error` is used only as the sole symbol of a top_statement / inner_statement alternative; the states that shift `error` are exactly the states in which a statement of a statement list may start, so recovery resumes at a list whose semantic value already holds the preceding statements. Not decided: which statements survive for every input (the three-token resynchronisation), and the no-invention/no-duplication clause for recovered trees (needs the action rules linear/order, claimed when built).",
		LevelNote: "Trusted: goyacc as reference generator, y.output as its faithful description of the automaton.",
		Technique: "static analysis: LALR automaton state rules on the regenerated grammar; table/driver equivalence",
		Engine:    "yacc",
		Explanation: "error-productions + tables-sync on internal/php5 and internal/php7.",
		TrustedBase: append([]string{"goyacc (golang.org/x/tools v0.29.0/cmd/goyacc)"}, baseTrusted...),
		Floors: []report.Floor{
			{Rule: "error-productions", What: "error-productions", Min: 4},
			{Rule: "error-productions", What: "recovery-states", Min: 20},
			{Rule: "tables-sync", What: "tables", Min: 22},
		},
		Run: func(c *Ctx) {
			defer c.cleanup()
			c.grammarRule("tables-sync", syncRule)
			c.grammarRule("error-productions", yacc.ErrorProductions)
		},
	}
}
