package main

import (
	"encoding/json"
	"fmt"
	"os"
	"path/filepath"
	"sort"
	"strings"

	"verif/internal/kinds"
	"verif/internal/load"
	"verif/internal/report"
	"verif/internal/small"
	"verif/internal/visitors"
)

// Rules added in the fourth session (this file's init runs after props_zz3.go's).

// presenceOracle: the set of slots of every node kind that a tree from a silent parse may leave
// empty, computed per grammar by the presence fixpoint over the compiled actions, must equal the
// reviewed table testdata/oracle/optional_slots.json. A slot that became optional means the
// grammar accepts a form in which a mandatory part is missing (seed C06-9: catch without a
// variable); a slot that became mandatory means a valid form is no longer accepted or is built
// differently.
type optionalOracle struct {
	Comment string              `json:"comment"`
	Tables  map[string]map[string]string `json:"tables"`
	Unbuilt map[string][]string `json:"unbuilt"` // kinds a grammar never builds
}

func (c *Ctx) computeOptional(dir, label string, tb *kinds.Table) (opt map[string]string, unbuilt []string, ok bool) {
	f, sh := c.flow(dir, label)
	if f == nil {
		return nil, nil, false
	}
	pres := f.TreePresence(sh)
	opt = map[string]string{}
	for _, k := range tb.Kinds {
		p := pres["ast."+k.Name]
		if p == nil || p.Sources == 0 {
			unbuilt = append(unbuilt, k.Name)
			continue
		}
		for _, fl := range k.Slots() {
			key := k.Name + "." + fl.Name
			switch fl.Class {
			case kinds.Tok, kinds.Node:
				if !p.Always[fl.Name] {
					opt[key] = "nil"
				}
			case kinds.NodeList, kinds.TokList:
				switch {
				case p.NonEmpty[fl.Name]:
				case p.Always[fl.Name] && !p.NonEmpty[fl.Name]:
					opt[key] = "empty"
				default:
					opt[key] = "nil-or-empty"
					if p.NonEmptyIfSet[fl.Name] {
						opt[key] = "nil"
					}
				}
			}
		}
	}
	sort.Strings(unbuilt)
	return opt, unbuilt, true
}

func (c *Ctx) presenceOracle() {
	// fixture: the table of the good grammar is the oracle for both fixture grammars
	if !c.NoFixtures {
		dir := filepath.Join(c.Verif, "testdata", "fixture", "mini")
		if p, err := c.Program(dir, false); err == nil {
			if tb, err := c.Kinds(p); err == nil {
				fres := report.NewResult("presence-oracle")
				c.presenceCompare(fres, dir, filepath.Join(dir, "optional_slots.json"), tb, [][3]string{{"yok", "yok", ""}, {"ybad", "yok", ""}, {"yok", "yok-strict", "strict:"}})
				c.compareFixture("mini", "presence-oracle", dir, fres)
			}
		}
	}
	res := report.NewResult("presence-oracle")
	defer c.Add(res)
	_, tb, ok := c.RepoProgram(false)
	if !ok {
		return
	}
	c.presenceCompare(res, c.Repo, filepath.Join(c.Verif, "testdata", "oracle", "optional_slots.json"), tb, [][3]string{{"php5", "php5", ""}, {"php7", "php7", ""}})
}

// presenceCompare compares the computed table of each grammar label with the oracle's table named by tables[label].
func (c *Ctx) presenceCompare(res *report.RuleResult, dir, path string, tb *kinds.Table, tables [][3]string) {
	dump := os.Getenv("VERIF_DUMP_ORACLE") != ""
	orc := optionalOracle{Tables: map[string]map[string]string{}, Unbuilt: map[string][]string{}}
	if !dump {
		b, err := os.ReadFile(path)
		if err != nil || json.Unmarshal(b, &orc) != nil {
			res.Unknown("oracle", path, "", "undecided:anchor: the reviewed table cannot be read")
			return
		}
	}
	for _, t := range tables {
		label, oname, pfx := t[0], t[1], t[2]
		opt, unbuilt, ok := c.computeOptional(dir, label, tb)
		if !ok {
			res.Unknown(label, "", "", "undecided: the grammar's actions could not be interpreted")
			continue
		}
		if dump {
			orc.Tables[label] = opt
			orc.Unbuilt[label] = unbuilt
			continue
		}
		label = pfx + label
		want := orc.Tables[oname]
		if want == nil {
			res.Unknown(label, path, "", "undecided:anchor: the reviewed table has no entry for grammar "+oname)
			continue
		}
		ub := map[string]bool{}
		for _, k := range unbuilt {
			ub[k] = true
		}
		wub := map[string]bool{}
		for _, k := range orc.Unbuilt[oname] {
			wub[k] = true
		}
		for _, k := range tb.Kinds {
			res.Count("kinds", 1)
			if ub[k.Name] != wub[k.Name] {
				if ub[k.Name] {
					res.Bad(label+"/"+k.Name, "", k.Name, "no production of the "+label+" grammar builds an ast."+k.Name+" any more: programs that need it are rejected or built as another kind")
				} else {
					res.Bad(label+"/"+k.Name, "", k.Name, "the "+label+" grammar now builds ast."+k.Name+", a kind that language family does not have")
				}
				continue
			}
			if ub[k.Name] {
				continue
			}
			for _, fl := range k.Slots() {
				key := k.Name + "." + fl.Name
				if why, skip := presenceNotDecided[key]; skip {
					res.OK(label+"/"+key, "", k.Name, "not decided here: "+why)
					continue
				}
				res.Count("slots", 1)
				got, exp := opt[key], want[key]
				switch {
				case got == exp:
					res.OK(label+"/"+key, "", k.Name, "may be absent: "+orDash(got))
				case exp == "" || (exp == "nil" && got == "nil-or-empty"):
					res.Bad(label+"/"+key, "", k.Name, fmt.Sprintf("slot %s can now be %s in a tree the %s grammar returns without an error (reviewed: %s): some production accepts the construct without this part, so a source in which it was deleted is parsed silently, or the tree of a valid program is incomplete", key, got, label, orAlways(exp)))
				case got == "":
					res.Bad(label+"/"+key, "", k.Name, fmt.Sprintf("slot %s is now present in every tree of the %s grammar, but PHP allows the construct without it (reviewed: may be %s): the valid form without this part is no longer accepted, or is built differently", key, label, exp))
				default:
					res.Bad(label+"/"+key, "", k.Name, fmt.Sprintf("slot %s, when the construct has nothing to put there, is now left %s by the %s grammar (reviewed: %s): observers that tell nil from empty (the printer's bracket selection, the dumper) see a different tree", key, got, label, exp))
				}
			}
		}
	}
	if dump {
		orc.Comment = "slots that may be absent (nil / empty) in a tree returned without an error, per grammar; reviewed against PHP's grammar"
		b, _ := json.MarshalIndent(orc, "", " ")
		os.MkdirAll(filepath.Dir(path), 0o755)
		os.WriteFile(path+".new", b, 0o644)
		res.OK("dump:"+path, path+".new", "", "written")
	}
}

// slots whose content does not come from the right-hand side of a production
var presenceNotDecided = map[string]string{
	"Root.EndTkn": "the start production stores the parser's current token (the end-of-input token) there; whether the analysis can see that it is non-nil depends on how the action spells the access, not on the grammar",
}

func orDash(s string) string {
	if s == "" {
		return "never"
	}
	return s
}
func orAlways(s string) string {
	if s == "" {
		return "always present"
	}
	return "may be " + s
}

var _ = strings.HasPrefix

func init() {
	const po = "presence-oracle: the set of slots (tokens, children, lists) of every node kind that a tree returned without an error may leave nil or empty, computed per grammar by the presence fixpoint over the compiled actions, equals the reviewed table testdata/oracle/optional_slots.json (about 190 optional slots of 1210; kinds a grammar never builds are listed too). A slot that becomes optional means some production now accepts the construct without that part - a source in which a mandatory token or operand was deleted is parsed silently (seed C06-9: catch without a variable); a slot that becomes mandatory, or a kind no production builds any more, means a valid form is rejected or built as something else."
	poF := []report.Floor{{Rule: "presence-oracle", What: "slots", Min: 1100}, {Rule: "presence-oracle", What: "kinds", Min: 300}}
	for _, id := range []string{"C06", "C03"} {
		extendProp(id, po, poF, func(c *Ctx) { defer c.cleanup(); c.presenceOracle() })
	}
	extendProp("C07", "stack-live: outside the generated Lex, every read of the scanner's call stack reads a slot below the top of the stack as it was when the function was entered, i.e. a state that a pending call() pushed (linear prover with a ghost term for the entry value of top; the writes of top/stack keep 0 <= top <= len(stack)). A return that finds nothing to return to (an unmatched closing brace, the typical syntax error inside a statement list) must not restore a stale slot left by an earlier interpolated string: the rest of the file would be scanned as string content and every later statement lost (seeds C07-4, C07-8).",
		[]report.Floor{{Rule: "stack-live", What: "obligations", Min: 2}},
		func(c *Ctx) { defer c.cleanup(); c.scanRun("stack-live") })
	const na = "newline-action: each of the 161 transitions of the generated scanner that consume LF or CR records exactly one line start at p+1 (nothing for a CR before a LF), so the line table from which token, node and error lines are computed has one entry per line terminator"
	naF := []report.Floor{{Rule: "newline-action", What: "consuming-edges", Min: 150}}
	extendProp("C05", na+" (seed C05-10: the state after a backslash in a single-quoted string lost its newline transitions; every later node's line fields were one too small).", naF,
		func(c *Ctx) { defer c.cleanup(); c.scanRun("newline-action") })
	extendProp("C06", na+" (seed C06-12: every error reported after such a string carried a line one too small).", naF,
		func(c *Ctx) { defer c.cleanup(); c.scanRun("newline-action") })
	extendProp("C11", "buf-readonly: nothing in the parsing packages writes an element of a byte slice that is not local storage - two parses of inputs that share memory (the same file parsed twice, sub-slices of one buffer) then only read it, so they cannot race on it and the second parse sees the bytes the first saw (seed C11-10: a grammar action appended to a token's Value, which is a window of the caller's buffer).",
		[]report.Floor{{Rule: "buf-readonly", What: "functions", Min: 400}},
		func(c *Ctx) { c.ssaScan("buf-readonly") })
	extendProp("C03", "newline-siblings: in every state of the scanner a blank and a tab take the same transitions and LF/CR are treated alike, so a valid program stays valid whichever of them separates its tokens (seed C03-10: a tab after `<?php` no longer completed the open tag). dispatch-shape: whatever receives the configuration in parser.Parse receives it after an omitted version was replaced by 7.4 (seed C03-11: the lexer was built first and kept a nil version, which panics on the first heredoc). linear: every right-hand-side token and node is placed exactly once in the tree the action returns - the tree PHP's grammar prescribes contains each operand once, in its role (seed C03-6: `$2[0]` instead of the last element of the link list).",
		[]report.Floor{{Rule: "newline-siblings", What: "states", Min: 500}, {Rule: "dispatch-shape", What: "paths", Min: 3}, {Rule: "linear", What: "productions", Min: 1000}},
		func(c *Ctx) {
			defer c.cleanup()
			c.scanRun("newline-siblings")
			c.Fixture("mini", "dispatch-shape", false, func(p *load.Program, tb *kinds.Table) *report.RuleResult {
				r := small.DispatchShapeIn(p, "pkg/parser", "pkg/version")
				r.Merge(small.DispatchShapeIn(p, "pkg/badparser", "pkg/version"), "bad:")
				r.Merge(small.DispatchShapeIn(p, "pkg/badparser2", "pkg/version"), "bad2:")
				return r
			})
			if p, _, ok := c.RepoProgram(false); ok {
				c.Add(small.DispatchShape(p))
			}
			c.flows_("linear")
		})
	extendProp("C14", "case-fold: in every state of the php machine upper- and lower-case letters take the same transitions, so the `namespace` keyword of a namespace-relative name is recognised however it is spelt and the name reaches the resolver as a NameRelative (seed C14-12: `NAMESPACE\\f()` scanned as an ordinary qualified name).",
		[]report.Floor{{Rule: "case-fold", What: "states", Min: 400}},
		func(c *Ctx) { defer c.cleanup(); c.scanRun("case-fold") })
	extendProp("C08", "pool-typestate: the token pool never hands out one object twice; free-floating and ordinary tokens share the pool, so with an aliased slot the token that is overwritten depends on how many whitespace and comment tokens precede it (seed C08-6).",
		[]report.Floor{{Rule: "pool-typestate", What: "pools", Min: 2}},
		func(c *Ctx) { c.poolRule() })
	extendProp("C01", "mark-flow: cursor positions the generated scanner keeps in locals of Lex between transitions (lblStart, lblEnd of the heredoc opener) are, at every action that reads them, recorded on every path of the automaton since the token began, in order (lblStart <= lblEnd, the cursor only moving forward in between) and inside the token - a forward must-analysis over the transition system. idx-guard discharges the slice lex.data[lblStart:lblEnd] and the index lex.data[lblStart-1] from it instead of from a reviewed exception (seed C01-10: the CR transitions of two states of the label machine exchanged, lblEnd never recorded in CRLF files, slice bounds out of range).",
		[]report.Floor{{Rule: "mark-flow", What: "marks", Min: 2}, {Rule: "mark-flow", What: "uses", Min: 2}},
		func(c *Ctx) { defer c.cleanup(); c.scanRun("mark-flow") })
	extendProp("C07", "byte-class: the printer's label-character predicate equals PHP's on all 256 bytes, so two adjacent word tokens of a recovered tree are never fused into a token the source does not contain (seed C07-11: `r > 0x80`).",
		[]report.Floor{{Rule: "byte-class", What: "evaluations", Min: 768}},
		func(c *Ctx) { c.byteClasses() })
	extendProp("C16", "no-carrier-escape: no parser-private carrier object (ParserBrackets, ...), whose Accept does nothing, is left in a child slot: the dumper would print the key and nothing after it, which is not Go source (seed C16-12).",
		[]report.Floor{{Rule: "no-carrier-escape", What: "productions", Min: 1000}},
		func(c *Ctx) { defer c.cleanup(); c.flows_("no-carrier-escape") })
	extendProp("C17", "kind-of-operator: every operator production builds the node kind of its operator token - the formatter regenerates the operator's text from the kind, so a wrong kind that the printer hides (it reprints the source token) changes the program when formatted (seed C17-10: `^` in a PHP 5 constant expression built as `xor`). version-flow: the scanner's version tests are constant on {5.0-5.6},{7.0-7.2},{7.3,7.4}, so the formatted text, which closes heredocs in the flexible 7.3 style only where the source did, re-parses under the configured version (seed C17-12).",
		[]report.Floor{{Rule: "kind-of-operator", What: "operator-productions", Min: 160}, {Rule: "version-flow", What: "uses", Min: 3}},
		func(c *Ctx) {
			defer c.cleanup()
			c.flowRule("kind-of-operator", flowRules["kind-of-operator"])
			c.Fixture("mini", "version-flow", false, func(p *load.Program, tb *kinds.Table) *report.RuleResult { return small.VersionFlow(p) })
			if p, _, ok := c.RepoProgram(false); ok {
				c.Add(small.VersionFlow(p))
			}
		})
	const nn = "newline-neutral: inside a token whose body may contain line terminators (block and doc comments, quoted and backquoted strings, heredoc bodies, inline HTML, the text after __halt_compiler) the state the automaton is in after a line feed takes, byte by byte, the same transitions as the body state (same successor states, same possibility of ending the token): what follows a line break is scanned like what follows any other byte (seed C08-12: `*/` at the start of a line no longer closed its comment)."
	nnF := []report.Floor{{Rule: "newline-neutral", What: "states", Min: 30}}
	for _, id := range []string{"C08", "C03", "C02"} {
		extendProp(id, nn, nnF, func(c *Ctx) { defer c.cleanup(); c.scanRun("newline-neutral") })
	}
	extendProp("C18", "pos-distinct: in every grammar action each node that gets a position gets the result of its own call of the position builder (one call = one object of the pool): no two nodes of an action hold the result of the same call, and none takes over the Position of an existing node - the pool's distinctness guarantee reaches the tree only if its client does not hand one object to two owners (seed C18-12: one `pos` local stored in a variable node and in its name).",
		[]report.Floor{{Rule: "pos-distinct", What: "nodes", Min: 850}},
		func(c *Ctx) { defer c.cleanup(); c.flowFixture("pos-distinct", flowRules["pos-distinct"]); c.flowRule("pos-distinct", flowRules["pos-distinct"]) })
	const tbnd = "token-bounds: the invariant 0 <= ts <= te <= len that idx-guard uses wherever a token's bytes are cut out of the input is discharged from the transition system: at every outcome of every action block that ends a token step, and wherever addFreeFloatingToken or setTokenPosition see the bounds, te - ts >= 0 over the intervals of the (d,e) dataflow (refined by the lex.act value the path tested and by what a successful ungetStr implies); every amount given back by ungetCnt is >= 0; te is only ever written as p or p+1 inside Lex or moved back by an unget, ts only as p or 0. idx-guard now also forgets, after a call, whatever the callee may assign."
	tbF := []report.Floor{{Rule: "token-bounds", What: "blocks", Min: 150}, {Rule: "token-bounds", What: "writes", Min: 300}}
	for _, id := range []string{"C01", "C04"} {
		extendProp(id, tbnd, tbF, func(c *Ctx) { defer c.cleanup(); c.scanRun("token-bounds") })
	}
	const hs = "heredoc-spec: the transition condition of the heredoc and nowdoc machines that decides whether the body goes on at the cursor (the hand-written predicates isHeredocEnd / isHeredocEndBefore73 / isHeredocEndSince73 and what they call, interpreted from source by package ceval - nothing is compiled or run) equals PHP's rule for the configured version on a bounded family of scenarios: previous byte {LF, CR, other} x indentation {none, blank, tab, two} x {the label, the label with its last byte changed, a proper prefix} x every sequence of up to two following bytes over the constants the code compares bytes with plus the classes of PHP's label characters x labels of one and two bytes x versions 5.6, 7.2, 7.3, 7.4 (about 290,000 evaluations). Before 7.3: label in column 0, optional `;`, then a line terminator or the end of the input; since 7.3: optional indentation, label, not followed by a label character. The family is bounded (the predicates loop over the indentation and compare a slice with the label), so this is a necessary condition, not a proof (seeds C03-12 = C06-10 = C10-10: isValidVarNameStart instead of isValidVarName after the label; C08-11; C17-12)."
	hsF := []report.Floor{{Rule: "heredoc-spec", What: "conditions", Min: 2}, {Rule: "heredoc-spec", What: "scenarios", Min: 100000}}
	for _, id := range []string{"C03", "C06", "C08", "C10"} {
		extendProp(id, hs, hsF, func(c *Ctx) { defer c.cleanup(); c.scanRun("heredoc-spec") })
	}
	const wsp = "write-spec: the printer's output primitive (found by its role) is evaluated from source (package ceval) on every sequence of up to three chunks from a family built from the constants it compares chunks with (the constant, a chunk that merely contains it, prefixes) and the classes of PHP's label characters, from a fresh printer and from each mode set through WithState; the bytes handed to the output must equal the specification: `<?php ` before the first non-empty chunk in HTML mode unless the chunk begins with `<?`, a blank between two chunks that meet in label characters, nothing for an empty chunk, the chunk itself last and unchanged (seed C15-10: HasPrefix replaced by Contains)."
	wsF := []report.Floor{{Rule: "write-spec", What: "scenarios", Min: 5000}}
	for _, id := range []string{"C15", "C02"} {
		extendProp(id, wsp, wsF, func(c *Ctx) {
			c.Fixture("mini", "write-spec", false, func(p *load.Program, tb *kinds.Table) *report.RuleResult {
				r := visitors.WriteSpecIn(p, tb, "pkg/visitor/printer", "printer")
				r.Merge(visitors.WriteSpecIn(p, tb, "pkg/visitor/badprinter", "printer"), "bad:")
				return r
			})
			if p, tb, ok := c.RepoProgram(false); ok {
				c.Add(visitors.WriteSpec(p, tb))
			}
		})
	}
	for _, id := range []string{"C02", "C03", "C06", "C08", "C10", "C15"} {
		properties[id].Technique += "; evaluation of hand-written predicates and helpers from their syntax trees (AST interpreter, nothing compiled or run) against written specifications on finite scenario families"
	}
	for _, id := range []string{"C01", "C04", "C07"} {
		properties[id].Technique += "; forward dataflow analyses over the reconstructed transition system of the generated scanner (cursor marks, token bounds, call-stack slots)"
	}
	properties["PO"] = &Property{Level: "other", Run: func(c *Ctx) { defer c.cleanup(); c.presenceOracle() }}
}
