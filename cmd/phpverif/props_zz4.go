package main

import (
	"encoding/json"
	"fmt"
	"os"
	"path/filepath"
	"sort"
	"strings"

	"verif/internal/kinds"
	"verif/internal/report"
)

// Rules added in the fourth session (this file's init runs after props_zz3.go's).

// presenceOracle: the set of slots of every node kind that a tree from a silent parse may leave
// empty, computed per grammar by the presence fixpoint over the compiled actions, must equal the
// reviewed table testdata/oracle/optional_slots.json. A slot that became optional means the
// grammar accepts a form in which a mandatory part is missing (seed C06-9: catch without a
// variable); a slot that became mandatory means a valid form is no longer accepted or is built
// differently.
type optionalOracle struct {
	Comment string              `json:"comment"`
	Tables  map[string]map[string]string `json:"tables"`
	Unbuilt map[string][]string `json:"unbuilt"` // kinds a grammar never builds
}

func (c *Ctx) computeOptional(dir, label string, tb *kinds.Table) (opt map[string]string, unbuilt []string, ok bool) {
	f, sh := c.flow(dir, label)
	if f == nil {
		return nil, nil, false
	}
	pres := f.TreePresence(sh)
	opt = map[string]string{}
	for _, k := range tb.Kinds {
		p := pres["ast."+k.Name]
		if p == nil || p.Sources == 0 {
			unbuilt = append(unbuilt, k.Name)
			continue
		}
		for _, fl := range k.Slots() {
			key := k.Name + "." + fl.Name
			switch fl.Class {
			case kinds.Tok, kinds.Node:
				if !p.Always[fl.Name] {
					opt[key] = "nil"
				}
			case kinds.NodeList, kinds.TokList:
				switch {
				case p.NonEmpty[fl.Name]:
				case p.Always[fl.Name] && !p.NonEmpty[fl.Name]:
					opt[key] = "empty"
				default:
					opt[key] = "nil-or-empty"
					if p.NonEmptyIfSet[fl.Name] {
						opt[key] = "nil"
					}
				}
			}
		}
	}
	sort.Strings(unbuilt)
	return opt, unbuilt, true
}

func (c *Ctx) presenceOracle() {
	// fixture: the table of the good grammar is the oracle for both fixture grammars
	if !c.NoFixtures {
		dir := filepath.Join(c.Verif, "testdata", "fixture", "mini")
		if p, err := c.Program(dir, false); err == nil {
			if tb, err := c.Kinds(p); err == nil {
				fres := report.NewResult("presence-oracle")
				c.presenceCompare(fres, dir, filepath.Join(dir, "optional_slots.json"), tb, [][3]string{{"yok", "yok", ""}, {"ybad", "yok", ""}, {"yok", "yok-strict", "strict:"}})
				c.compareFixture("mini", "presence-oracle", dir, fres)
			}
		}
	}
	res := report.NewResult("presence-oracle")
	defer c.Add(res)
	_, tb, ok := c.RepoProgram(false)
	if !ok {
		return
	}
	c.presenceCompare(res, c.Repo, filepath.Join(c.Verif, "testdata", "oracle", "optional_slots.json"), tb, [][3]string{{"php5", "php5", ""}, {"php7", "php7", ""}})
}

// presenceCompare compares the computed table of each grammar label with the oracle's table named by tables[label].
func (c *Ctx) presenceCompare(res *report.RuleResult, dir, path string, tb *kinds.Table, tables [][3]string) {
	dump := os.Getenv("VERIF_DUMP_ORACLE") != ""
	orc := optionalOracle{Tables: map[string]map[string]string{}, Unbuilt: map[string][]string{}}
	if !dump {
		b, err := os.ReadFile(path)
		if err != nil || json.Unmarshal(b, &orc) != nil {
			res.Unknown("oracle", path, "", "undecided:anchor: the reviewed table cannot be read")
			return
		}
	}
	for _, t := range tables {
		label, oname, pfx := t[0], t[1], t[2]
		opt, unbuilt, ok := c.computeOptional(dir, label, tb)
		if !ok {
			res.Unknown(label, "", "", "undecided: the grammar's actions could not be interpreted")
			continue
		}
		if dump {
			orc.Tables[label] = opt
			orc.Unbuilt[label] = unbuilt
			continue
		}
		label = pfx + label
		want := orc.Tables[oname]
		if want == nil {
			res.Unknown(label, path, "", "undecided:anchor: the reviewed table has no entry for grammar "+oname)
			continue
		}
		ub := map[string]bool{}
		for _, k := range unbuilt {
			ub[k] = true
		}
		wub := map[string]bool{}
		for _, k := range orc.Unbuilt[oname] {
			wub[k] = true
		}
		for _, k := range tb.Kinds {
			res.Count("kinds", 1)
			if ub[k.Name] != wub[k.Name] {
				if ub[k.Name] {
					res.Bad(label+"/"+k.Name, "", k.Name, "no production of the "+label+" grammar builds an ast."+k.Name+" any more: programs that need it are rejected or built as another kind")
				} else {
					res.Bad(label+"/"+k.Name, "", k.Name, "the "+label+" grammar now builds ast."+k.Name+", a kind that language family does not have")
				}
				continue
			}
			if ub[k.Name] {
				continue
			}
			for _, fl := range k.Slots() {
				res.Count("slots", 1)
				key := k.Name + "." + fl.Name
				got, exp := opt[key], want[key]
				switch {
				case got == exp:
					res.OK(label+"/"+key, "", k.Name, "may be absent: "+orDash(got))
				case exp == "" || (exp == "nil" && got == "nil-or-empty"):
					res.Bad(label+"/"+key, "", k.Name, fmt.Sprintf("slot %s can now be %s in a tree the %s grammar returns without an error (reviewed: %s): some production accepts the construct without this part, so a source in which it was deleted is parsed silently, or the tree of a valid program is incomplete", key, got, label, orAlways(exp)))
				case got == "":
					res.Bad(label+"/"+key, "", k.Name, fmt.Sprintf("slot %s is now present in every tree of the %s grammar, but PHP allows the construct without it (reviewed: may be %s): the valid form without this part is no longer accepted, or is built differently", key, label, exp))
				default:
					res.Bad(label+"/"+key, "", k.Name, fmt.Sprintf("slot %s, when the construct has nothing to put there, is now left %s by the %s grammar (reviewed: %s): observers that tell nil from empty (the printer's bracket selection, the dumper) see a different tree", key, got, label, exp))
				}
			}
		}
	}
	if dump {
		orc.Comment = "slots that may be absent (nil / empty) in a tree returned without an error, per grammar; reviewed against PHP's grammar"
		b, _ := json.MarshalIndent(orc, "", " ")
		os.MkdirAll(filepath.Dir(path), 0o755)
		os.WriteFile(path+".new", b, 0o644)
		res.OK("dump:"+path, path+".new", "", "written")
	}
}

func orDash(s string) string {
	if s == "" {
		return "never"
	}
	return s
}
func orAlways(s string) string {
	if s == "" {
		return "always present"
	}
	return "may be " + s
}

var _ = strings.HasPrefix

func init() {
	const po = "presence-oracle: the set of slots (tokens, children, lists) of every node kind that a tree returned without an error may leave nil or empty, computed per grammar by the presence fixpoint over the compiled actions, equals the reviewed table testdata/oracle/optional_slots.json (about 190 optional slots of 1210; kinds a grammar never builds are listed too). A slot that becomes optional means some production now accepts the construct without that part - a source in which a mandatory token or operand was deleted is parsed silently (seed C06-9: catch without a variable); a slot that becomes mandatory, or a kind no production builds any more, means a valid form is rejected or built as something else."
	poF := []report.Floor{{Rule: "presence-oracle", What: "slots", Min: 1100}, {Rule: "presence-oracle", What: "kinds", Min: 300}}
	for _, id := range []string{"C06", "C03"} {
		extendProp(id, po, poF, func(c *Ctx) { defer c.cleanup(); c.presenceOracle() })
	}
	extendProp("C07", "stack-live: outside the generated Lex, every read of the scanner's call stack reads a slot below the top of the stack as it was when the function was entered, i.e. a state that a pending call() pushed (linear prover with a ghost term for the entry value of top; the writes of top/stack keep 0 <= top <= len(stack)). A return that finds nothing to return to (an unmatched closing brace, the typical syntax error inside a statement list) must not restore a stale slot left by an earlier interpolated string: the rest of the file would be scanned as string content and every later statement lost (seeds C07-4, C07-8).",
		[]report.Floor{{Rule: "stack-live", What: "obligations", Min: 2}},
		func(c *Ctx) { defer c.cleanup(); c.scanRun("stack-live") })
	properties["PO"] = &Property{Level: "other", Run: func(c *Ctx) { defer c.cleanup(); c.presenceOracle() }}
}
