package main

import (
	"strings"
	"verif/internal/effects"
	"verif/internal/kinds"
	"verif/internal/load"
	"verif/internal/report"
	"verif/internal/small"
	"verif/internal/visitors"
)

var baseTrusted = []string{
	"go/types, go/packages (x/tools v0.29.0): name and type resolution of /repo as found on disk",
	"the analyser in /verif/internal (exercised on ok/bad fixtures on every run)",
}

var properties = map[string]*Property{}

type ruleFn func(p *load.Program, tb *kinds.Table) *report.RuleResult

// visitorRule runs a kinds-table rule on its fixture and on /repo.
func (c *Ctx) visitorRule(rule string, fn ruleFn) {
	c.Fixture("mini", rule, false, fn)
	p, tb, ok := c.RepoProgram(false)
	if !ok {
		return
	}
	c.Add(fn(p, tb))
}

func init() {
	for _, id := range []string{} {
		notApplicable[id] = "check not built yet at this commit (see DESIGN.md §7 build order); no claim is made"
	}
	properties["C12"] = &Property{
		Level:     "proof",
		LevelText: "Exhaustive structural proof over the finite space the property quantifies over (155 node kinds x all child slots): every Traverser method is decided on every path by a typed-AST analysis; nothing is sampled and nothing is executed.",
		LevelNote: "Trusts go/types resolution and the analyser (validated on ok/bad fixtures every run). Source-order = declaration-order and the no-sharing clause rest on the grammar-action rules decided under C02/C05.",
		Technique: "static analysis: typed-AST slot-event extraction + structured path enumeration over all 155 Traverser methods and Accept dispatchers",
		Engine:    "visitors",
		Explanation: "Exhaustive structural proof over all node kinds and child slots: (traverse-slots) every Traverser method presents the node to the wrapped visitor exactly once before any child and then descends into every Vertex/[]Vertex field exactly once in declaration order on every path; (accept-dispatch) every Accept dispatches to the one visitor method of its own kind and kinds↔methods is a bijection. " +
			"Declaration order = source order and no-node-shared are properties of the grammar actions decided under C02/C05 (rules order, linear).",
		Assumptions: []string{"the visitor handed to the Traverser does not itself call back into the traverser", "trees come from the parser (acyclic)"},
		TrustedBase: baseTrusted,
		Floors: []report.Floor{
			{Rule: "traverse-slots", What: "methods", Min: 155},
			{Rule: "traverse-slots", What: "helpers", Min: 1},
			{Rule: "accept-dispatch", What: "kinds", Min: 155},
		},
		Run: func(c *Ctx) {
			c.visitorRule("traverse-slots", visitors.TraverseSlots)
			c.visitorRule("accept-dispatch", visitors.AcceptDispatch)
		},
	}

	properties["C15"] = &Property{
		Level:     "other",
		LevelText: "Exhaustive over the 155 node kinds x all token and child slots: a typed-AST analysis decides, on every path of every printer method, that each slot is emitted exactly once, in declaration order, through the helper that fits its type, with a default that is a constant lexeme, the node's own Value or nothing; the five helpers are verified separately. Level 'other' because the equality of declaration order with source order and the lexeme-vs-scanner agreement are decided by other rules (order, default-lexeme) and compositionality of the written bytes is argued, not computed.",
		LevelNote: "Trusts go/types and the analyser (fixtures run every time). Does not decide value-level effects inside write() (the separating space / '<?php ' insertion are enumerated by print-inserts under C02).",
		Technique: "static analysis: typed-AST slot-event extraction + path enumeration over all printer methods; helper shape verification",
		Engine:    "visitors",
		Explanation: "print-slots: for each of the printer's visitor methods and each path, the sequence of primary arguments of printToken/printNode/printList/printSeparatedList equals the struct's token/child fields in declaration order, each once (alternative-syntax idiom modelled: a child StmtStmtList printed in place must have all of its own slots printed once in order); print-local: arguments and conditions refer only to the node being printed and printer state; defaults are nil, constants, n.Value or nil-selectors over own slots. print-helpers: printToken writes free-floating values in order then the token value when present, else the default; printSeparatedList interleaves item k with separators[k], else the default between items only; printList/printNode visit each non-nil element once; write emits its argument exactly once, last. byte-class: the predicate that decides where write adds a separating space equals PHP's label-character class on all 256 bytes (and so does the scanner's).",
		Assumptions: []string{"declaration order of pkg/ast fields is source order (decided by rule `order` on the grammar actions, C02/C05)"},
		TrustedBase: baseTrusted,
		Floors: []report.Floor{
			{Rule: "print-slots", What: "methods", Min: 155},
			{Rule: "print-helpers", What: "helpers", Min: 5},
			{Rule: "byte-class", What: "evaluations", Min: 768},
		},
		Run: func(c *Ctx) {
			c.visitorRule("print-slots", visitors.PrintSlots)
			c.Fixture("mini", "print-helpers", false, func(p *load.Program, tb *kinds.Table) *report.RuleResult {
				r := visitors.PrintHelpersIn(p, tb, "pkg/visitor/printer")
				r.Merge(visitors.PrintHelpersIn(p, tb, "pkg/visitor/badprinter"), "bad:")
				return r
			})
			if p, tb, ok := c.RepoProgram(false); ok {
				c.Add(visitors.PrintHelpers(p, tb))
			}
			c.byteClasses()
		},
	}

	properties["C16"] = &Property{
		Level:     "other",
		LevelText: "Exhaustive over the 155 node kinds x all fields: a typed-AST analysis decides that each dumper method opens a literal bearing its own kind's type, dumps every field exactly once under the field's own label (Val for byte values) with the helper matching the field's type, and closes the literal; helpers are checked for key/element/field completeness, bracket and indent balance on every path, and option gating. Level 'other' because validity of the whole output as Go source is argued from balance and per-field shape, not parsed.",
		LevelNote: "Trusts go/types and the analyser. Does not run go/parser on any dump.",
		Technique: "static analysis: typed-AST event extraction over all dumper methods and helpers; per-path bracket/indent balance",
		Engine:    "visitors",
		Explanation: "dump-slots: frame `&ast.<Kind>{` … `},`, dumpPosition(n.Position) and one helper call per other field whose constant label equals the field name (Val for []byte) and whose helper matches the field type. dump-helpers: dumpToken/dumpPosition treat token.Token / position.Position like kinds (each field once under its own name, zero-valued ID/Value omitted), dumpVertex/dumpVertexList/dumpTokenList print the key and each element once in order, brackets in all emitted constants balance on every path (strconv.Quote output is one literal), the indent is restored, and only the token helpers read withTokens / only dumpPosition reads withPositions. token-names: the name table behind token.ID.String (which dumpToken prints after `token.`) names every constant of type token.ID by its own identifier (table agreement, String has the table-lookup shape).",
		TrustedBase: baseTrusted,
		Floors: []report.Floor{
			{Rule: "dump-slots", What: "methods", Min: 155},
			{Rule: "dump-helpers", What: "functions", Min: 160},
			{Rule: "token-names", What: "constants", Min: 130},
		},
		Run: func(c *Ctx) {
			c.visitorRule("dump-slots", visitors.DumpSlots)
			c.Fixture("mini", "dump-helpers", false, func(p *load.Program, tb *kinds.Table) *report.RuleResult {
				r := visitors.DumpHelpersIn(p, tb, "pkg/visitor/dumper")
				bad := visitors.DumpHelpersIn(p, tb, "pkg/visitor/baddumper")
				var keep []report.Obligation
				for _, ob := range bad.Obls {
					if ob.Status != report.Discharged {
						keep = append(keep, ob)
					}
				}
				bad.Obls = keep
				r.Merge(bad, "bad:")
				return r
			})
			if p, tb, ok := c.RepoProgram(false); ok {
				c.Add(visitors.DumpHelpers(p, tb))
			}
			c.Fixture("mini", "token-names", false, func(p *load.Program, tb *kinds.Table) *report.RuleResult {
				r := small.TokenNames(p, "pkg/tokname", "ID")
				r.Merge(small.TokenNames(p, "pkg/badtokname", "ID"), "bad:")
				return r
			})
			if p, _, ok := c.RepoProgram(false); ok {
				c.Add(small.TokenNames(p, "pkg/token", "ID"))
			}
		},
	}

	properties["C18"] = &Property{
		Level:     "proof",
		LevelText: "Inductive proof by abstract interpretation: Get of both pools is executed symbolically on every path over the zone (difference-bound) domain on {off, len(block)} under the invariant 0 <= off <= len(block), len(block) >= 1; each feasible path must return &block[i] with off_entry <= i < off_exit <= len(block) (any in-range i for a freshly made block) and preserve the invariant; the nil path must be infeasible; only the constructor and Get may touch block/off anywhere in the module; every constructor call passes a positive constant. Distinctness for all request counts and block sizes follows by induction on calls (the pair (block identity, index) strictly increases).",
		LevelNote: "Trusted: go/types, the 3-variable zone domain implementation (closure by Floyd-Warshall; exact for integer difference constraints) and the analyser's small statement language (anything outside it is undecided and fails). Go's make returns fresh storage.",
		Technique: "static analysis: typestate/abstract interpretation over a zone domain with who-touches check across the module",
		Engine:    "small",
		Explanation: "pool-typestate on pkg/token.Pool and pkg/position.Pool: constructor establishes off=0, block=make([]T,blockSize); Get paths enumerated and executed symbolically; obligations per path: bounds, no re-issue (index >= entry offset unless the block is fresh), offset advances beyond the returned index, invariant preserved, nil return infeasible for len(block) >= 1. who-touches: no other function in the module reads or writes Pool.block/Pool.off; no Pool literal outside the constructor; all NewPool call sites pass a positive constant. builder-ends: every position combinator of internal/position obtains one object from the pool per call and returns that object (never an argument's position), so distinct nodes never share a Position.",
		Assumptions: []string{"block size >= 1 (the property's own precondition; all call sites in the module are checked to pass a positive constant)"},
		TrustedBase: append([]string{"zone domain over {0, off, len(block)} in internal/small/pool.go"}, baseTrusted...),
		Floors: []report.Floor{
			{Rule: "pool-typestate", What: "pools", Min: 2},
			{Rule: "pool-typestate", What: "get-paths", Min: 6},
			{Rule: "pool-typestate", What: "ctor-calls", Min: 3},
			{Rule: "builder-ends", What: "combinators", Min: 12},
		},
		Run: func(c *Ctx) {
			c.Fixture("mini", "pool-typestate", false, func(p *load.Program, tb *kinds.Table) *report.RuleResult {
				return small.PoolRule(p, "pkg/token", "pkg/badpool1", "pkg/badpool2", "pkg/badpool3", "pkg/badpool4")
			})
			if p, _, ok := c.RepoProgram(false); ok {
				c.Add(small.PoolRule(p, "pkg/token", "pkg/position"))
			}
			// the position builder is the only client of the position pool: it must hand out exactly the object it obtained
			c.builderEnds()
		},
	}

	properties["C09"] = &Property{
		Level:     "other",
		LevelText: "The version API touches (major, minor) only through comparisons, so evaluating Compare/InRange/Less*/Greater*/Validate by abstract interpretation on one representative of every ordering of the operands (relative to each other and to the boundary constants, including huge values) is exhaustive for those functions; Parse's dispatch is decided path by path; all uses of the configured version outside pkg/version are enumerated and each comparison must be constant on the cells {5.0-5.6}, {7.0-7.2}, {7.3, 7.4}. Level 'other' because version.New's string parsing is only checked for provenance (segments, base, bit size), and 'identical trees within a cell' rests on the enumeration of version reads rather than on comparing trees.",
		LevelNote: "Trusts go/types, the mini interpreter in internal/small/interp.go (fails on anything outside its fragment), strconv/strings semantics. Oracle: PHP versions 5.0-5.6, 7.0-7.4, default 7.4, flexible heredoc from 7.3.",
		Technique: "static analysis: abstract interpretation over the finite domain of orderings; structured path enumeration of the dispatcher; type-based enumeration of version uses",
		Engine:    "small",
		Explanation: "order-domain: Compare = lexicographic numeric order (81+ orderings and boundary values), Less/LessOrEqual/Greater/GreaterOrEqual agree with it, InRange = closed interval (729 orderings), Validate accepts exactly 5.0-5.6 and 7.0-7.4; New splits at '.', base 10, 64 bits, segment 0 -> Major, 1 -> Minor; no run-time writes to range constants. dispatch-shape: every path of parser.Parse — nil version replaced by 7.4 before use, tree returned only inside an InRange-true branch by the parser of the matching family after running it, otherwise (nil, error); ranges are exactly 5.0-5.6 and 7.0-7.4 and equal the validator's. version-flow: outside pkg/version and the dispatcher the version is only copied or compared with version.New(<constant>) and each such test is constant on every cell of the property's partition.",
		TrustedBase: baseTrusted,
		Floors: []report.Floor{
			{Rule: "order-domain", What: "evaluations", Min: 1000},
			{Rule: "dispatch-shape", What: "paths", Min: 3},
			{Rule: "version-flow", What: "comparisons", Min: 1},
			{Rule: "version-flow", What: "uses", Min: 3},
		},
		Run: func(c *Ctx) {
			c.Fixture("mini", "order-domain", true, func(p *load.Program, tb *kinds.Table) *report.RuleResult {
				r := small.OrderDomainIn(p, "pkg/version")
				r.Merge(small.OrderDomainIn(p, "pkg/badversion"), "bad:")
				return r
			})
			c.Fixture("mini", "dispatch-shape", false, func(p *load.Program, tb *kinds.Table) *report.RuleResult {
				r := small.DispatchShapeIn(p, "pkg/parser", "pkg/version")
				r.Merge(small.DispatchShapeIn(p, "pkg/badparser", "pkg/version"), "bad:")
				r.Merge(small.DispatchShapeIn(p, "pkg/badparser2", "pkg/version"), "bad2:")
				return r
			})
			c.Fixture("mini", "version-flow", false, func(p *load.Program, tb *kinds.Table) *report.RuleResult { return small.VersionFlow(p) })
			if p, _, ok := c.RepoProgram(true); ok {
				c.Add(small.OrderDomain(p))
				c.Add(small.DispatchShape(p))
				c.Add(small.VersionFlow(p))
			}
		},
	}

	properties["C13"] = &Property{
		Level:     "proof",
		LevelText: "Effect analysis on go/ssa over every function of the observer packages (printer, dumper, traverser, nsresolver, visitor) and everything they call statically in the module: no instruction can write tree storage. A write to the tree needs a Store through a field address of a pkg/ast, pkg/token or pkg/position struct, an index-store / append / copy into a slice that may alias tree storage, or a callee outside the module that writes its argument; all four are excluded for every instruction. Since no observer can change any tree byte, any sequence of observer runs sees the same tree, which is the property.",
		LevelNote: "Trusted: go/ssa construction, the freshness/aliasing over-approximation (a value of tree-capable type is assumed to alias the tree unless it is built in the same function), the reviewed list of read-only external sinks (io.Writer.Write contract, bytes.Has*, strconv.Quote, …). The visitor wrapped by the Traverser is assumed passive (the property's own precondition). unsafe/reflect are absent from these packages (checked by no-nondeterminism under C11).",
		Technique: "static analysis: SSA store/effect analysis with type-based alias over-approximation",
		Engine:    "effects",
		Explanation: "tree-readonly: for each SSA function: Store whose address chain passes a FieldAddr on a tree struct that is not a local allocation; Store through IndexAddr on a slice that is tree-capable and not fresh; append/copy/clear whose destination may alias the tree; stores through pointer parameters of tree type; tree-derived arguments to functions outside the module that are not in the reviewed read-only set; tree-derived arguments to interface methods other than io.Writer.Write, Vertex.Accept/GetPosition.",
		Assumptions: []string{"the visitor given to the Traverser is passive", "io.Writer implementations honour the Write contract (must not modify the slice)"},
		TrustedBase: append([]string{"go/ssa (x/tools v0.29.0)"}, baseTrusted...),
		Floors: []report.Floor{
			{Rule: "tree-readonly", What: "functions", Min: 650},
		},
		Run: func(c *Ctx) {
			c.Fixture("mini", "tree-readonly", true, func(p *load.Program, tb *kinds.Table) *report.RuleResult {
				w, err := effects.NewWorld(p)
				if err != nil {
					panic(err)
				}
				return effects.TreeReadonly(w, "pkg/visitor/printer", "pkg/visitor/dumper", "pkg/visitor/traverser", "pkg/visitor/badobs")
			})
			if p, _, ok := c.RepoProgram(true); ok {
				w, err := effects.NewWorld(p)
				if err != nil {
					c.Fail("tree-readonly", "ssa", "ssa: "+err.Error())
					return
				}
				c.Add(effects.TreeReadonly(w, "pkg/visitor/printer", "pkg/visitor/dumper", "pkg/visitor/traverser", "pkg/visitor/nsresolver", "pkg/visitor"))
			}
		},
	}
}

// idxSafePkgs: the packages rule idx-safe covers (everything hand-written outside the scanner, which idx-guard covers).
var idxSafePkgs = []string{"pkg/visitor/printer", "pkg/visitor/dumper", "pkg/visitor/formatter", "pkg/visitor/traverser", "pkg/visitor/nsresolver", "pkg/visitor", "pkg/errors", "pkg/position", "pkg/token", "pkg/version", "pkg/parser", "pkg/conf", "pkg/ast", "internal/position", "internal/php5", "internal/php7", "cmd/php-parser"}

// idxSafeReviewed: sites whose safety rests on an invariant the prover does not derive (one construct each).
var idxSafeReviewed = map[string]string{
	"pkg/visitor/formatter/insert/s2[k + len(vs):]": "insert has one caller, formatStmts, which passes k = i+insertCounter with i < the original length and insertCounter = the number of elements inserted so far, so 0 <= k <= len(s); the loop invariant len(*list) = original + insertCounter is not linear in the prover's facts",
	"pkg/visitor/formatter/insert/s2[k:]":           "as above: 0 <= k <= len(s) <= len(s2)",
	"pkg/visitor/formatter/insert/s[:k]":            "as above: 0 <= k <= len(s)",
	"pkg/visitor/formatter/insert/s[k:]":            "as above: 0 <= k <= len(s)",
	"pkg/visitor/nsresolver/NamespaceResolver.AddAlias/useNameParts[len(useNameParts) - 1]": "Parts of an ast.Name is never empty in a parsed tree: both grammars build every name list from at least one T_STRING (namespace_name: T_STRING | namespace_name T_NS_SEPARATOR T_STRING); hand-built trees with an empty name are outside the property",
	"pkg/visitor/nsresolver/Namespace.ResolveAlias/nameParts[0]":                            "as above: Name.Parts is non-empty in every parsed tree",
	"pkg/token/ID.String/_ID_name[_ID_index[i]:_ID_index[i + 1]]": "the bounds are table entries: rule token-names checks every entry of _ID_index against len(_ID_name) and their order; the two inner index expressions are proved here from the range guard",
}

func (c *Ctx) idxSafe(rels ...string) {
	if len(rels) == 0 {
		rels = idxSafePkgs
	}
	c.Fixture("mini", "idx-safe", false, func(p *load.Program, tb *kinds.Table) *report.RuleResult {
		r := small.IdxSafe(p, []string{"pkg/idxok"}, map[string]string{})
		r.Merge(small.IdxSafe(p, []string{"pkg/idxbad"}, map[string]string{}), "bad:")
		return r
	})
	// the reviewed exceptions that belong to the packages asked for (owner = the longest covered package path that prefixes the key)
	rev := map[string]string{}
	for k, v := range idxSafeReviewed {
		owner := ""
		for _, rel := range idxSafePkgs {
			if strings.HasPrefix(k, rel+"/") && len(rel) > len(owner) {
				owner = rel
			}
		}
		for _, rel := range rels {
			if rel == owner {
				rev[k] = v
			}
		}
	}
	if p, _, ok := c.RepoProgram(false); ok {
		// functions of the grammar packages that only the actions call, and that the action interpreter inlines,
		// are judged by list-index (which the properties that cover those packages run as well)
		small.IdxDeferToActions = func(rel, fn string) bool {
			label := strings.TrimPrefix(rel, "internal/")
			if label != "php5" && label != "php7" {
				return false
			}
			f, _ := c.flow(c.Repo, label)
			return f != nil && f.InlinedIntoActions(fn)
		}
		c.Add(small.IdxSafe(p, rels, rev))
		small.IdxDeferToActions = nil
	}
}

func init() {
	properties["IX"] = &Property{Level: "other", Engine: "small", Run: func(c *Ctx) { c.idxSafe() }}
}

// addIdxSafe extends property id with rule idx-safe over the given packages.
func addIdxSafe(id string, what string, min int, rels ...string) {
	p := properties[id]
	run := p.Run
	p.Explanation += " idx-safe (" + strings.Join(rels, ", ") + "): every index and slice expression on a slice, array or string is implied in range by the conditions that dominate it (linear prover; facts from guards, early returns, loop and range bounds, make/append/reslice lengths, and the derived invariant that a slice field only ever assigned nil or a non-empty slice is non-empty when non-nil); reviewed exceptions are listed with the invariant they rest on."
	if !strings.Contains(p.Technique, "linear bound proving") {
		p.Technique += "; linear bound proving of index/slice sites"
	}
	p.Floors = append(p.Floors, report.Floor{Rule: "idx-safe", What: what, Min: min})
	p.Run = func(c *Ctx) {
		run(c)
		c.idxSafe(rels...)
	}
}
