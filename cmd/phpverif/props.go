package main

import (
	"verif/internal/kinds"
	"verif/internal/load"
	"verif/internal/report"
	"verif/internal/visitors"
)

var baseTrusted = []string{
	"go/types, go/packages (x/tools v0.29.0): name and type resolution of /repo as found on disk",
	"the analyser in /verif/internal (exercised on ok/bad fixtures on every run)",
}

var properties = map[string]*Property{}

type ruleFn func(p *load.Program, tb *kinds.Table) *report.RuleResult

// visitorRule runs a kinds-table rule on its fixture and on /repo.
func (c *Ctx) visitorRule(rule string, fn ruleFn) {
	c.Fixture("mini", rule, false, fn)
	p, tb, ok := c.RepoProgram(false)
	if !ok {
		return
	}
	c.Add(fn(p, tb))
}

func init() {
	for _, id := range []string{"C01", "C02", "C03", "C04", "C05", "C06", "C07", "C08", "C09", "C10", "C11", "C13", "C14", "C15", "C16", "C17", "C18"} {
		notApplicable[id] = "check not built yet at this commit (see DESIGN.md §7 build order); no claim is made"
	}
	properties["C12"] = &Property{
		Level:     "proof",
		LevelText: "Exhaustive structural proof over the finite space the property quantifies over (155 node kinds x all child slots): every Traverser method is decided on every path by a typed-AST analysis; nothing is sampled and nothing is executed.",
		LevelNote: "Trusts go/types resolution and the analyser (validated on ok/bad fixtures every run). Source-order = declaration-order and the no-sharing clause rest on the grammar-action rules decided under C02/C05.",
		Technique: "static analysis: typed-AST slot-event extraction + structured path enumeration over all 155 Traverser methods and Accept dispatchers",
		Engine:    "visitors",
		Explanation: "Exhaustive structural proof over all node kinds and child slots: (traverse-slots) every Traverser method presents the node to the wrapped visitor exactly once before any child and then descends into every Vertex/[]Vertex field exactly once in declaration order on every path; (accept-dispatch) every Accept dispatches to the one visitor method of its own kind and kinds↔methods is a bijection. " +
			"Declaration order = source order and no-node-shared are properties of the grammar actions decided under C02/C05 (rules order, linear).",
		Assumptions: []string{"the visitor handed to the Traverser does not itself call back into the traverser", "trees come from the parser (acyclic)"},
		TrustedBase: baseTrusted,
		Floors: []report.Floor{
			{Rule: "traverse-slots", What: "methods", Min: 155},
			{Rule: "traverse-slots", What: "helpers", Min: 1},
			{Rule: "accept-dispatch", What: "kinds", Min: 155},
		},
		Run: func(c *Ctx) {
			c.visitorRule("traverse-slots", visitors.TraverseSlots)
			c.visitorRule("accept-dispatch", visitors.AcceptDispatch)
		},
	}
}
