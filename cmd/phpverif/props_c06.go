package main

import (
	"verif/internal/effects"
	"verif/internal/kinds"
	"verif/internal/load"
	"verif/internal/report"
)

var parsingPkgs = []string{"pkg/parser", "internal/scanner", "internal/php5", "internal/php7", "internal/position", "pkg/token", "pkg/position", "pkg/errors", "pkg/conf", "pkg/version", "pkg/ast"}

func init() {
	delete(notApplicable, "C06")
	properties["C06"] = &Property{
		Level:     "other",
		LevelText: "Structural necessary conditions decided for every function of the module: (1) every call of the error callback is dominated by a nil test of the same callback expression and callback fields are written only at construction; (2) the caller's ErrorHandlerFunc reaches the lexer's and the parser's callback field unchanged on every path of parser.Parse; (3) the only uses of a callback value are copy-into-callback-field, comparison with nil and the call, and the code that runs only when the callback is set (or only when it is nil) changes no parser, lexer or tree state - hence installing or omitting the callback cannot change the tree; (4) the reporting functions forward the incoming message with the position of the current token / of ts..te; (5) the root node is assigned only in the start rule's action and reset at the start of Parse. Not decided: that every malformed program triggers a syntax error (tightness of the grammar), message wording, source order of errors.",
		LevelNote: "Trusted: go/ssa, dominator computation of x/tools, the normalised expression printer in internal/effects/callback.go. The goyacc driver's Errflag protocol (Parse returns non-zero only after calling Error) is that of the stock skeleton (skeleton-sync, decided under C03 when built).",
		Technique: "static analysis: SSA dominance (guard-before-call), provenance/origin tracing of the callback, region effect analysis around nil tests, typed-AST who-assigns rule for the root",
		Engine:    "effects",
		Explanation: "cb-guard, callback-plumbing, callback-noninterference, error-forwarding, root-only-on-accept over the whole module (generated parsers included).",
		Assumptions: []string{"the callback itself does not reach back into the parser"},
		TrustedBase: append([]string{"go/ssa (x/tools v0.29.0)"}, baseTrusted...),
		Floors: []report.Floor{
			{Rule: "cb-guard", What: "calls", Min: 2}, {Rule: "error-forwarding", What: "report-origins", Min: 4},
			{Rule: "cb-guard", What: "field-stores", Min: 3},
			{Rule: "callback-plumbing", What: "config-args", Min: 2},
			{Rule: "callback-plumbing", What: "ctor-stores", Min: 2},
			{Rule: "callback-noninterference", What: "uses", Min: 10},
			{Rule: "error-forwarding", What: "calls", Min: 3},
			{Rule: "root-only-on-accept", What: "assignments", Min: 4},
		},
		Run: func(c *Ctx) {
			c.Fixture("mini", "cb-guard", true, func(p *load.Program, tb *kinds.Table) *report.RuleResult {
				w, _ := effects.NewWorld(p)
				return effects.CbGuard(w)
			})
			c.Fixture("mini", "callback-plumbing", true, func(p *load.Program, tb *kinds.Table) *report.RuleResult {
				w, _ := effects.NewWorld(p)
				return effects.CallbackPlumbing(w)
			})
			c.Fixture("mini", "callback-noninterference", true, func(p *load.Program, tb *kinds.Table) *report.RuleResult {
				w, _ := effects.NewWorld(p)
				return effects.CallbackNoninterference(w)
			})
			c.Fixture("mini", "error-forwarding", true, func(p *load.Program, tb *kinds.Table) *report.RuleResult {
				w, _ := effects.NewWorld(p)
				return effects.ErrorForwarding(w)
			})
			c.Fixture("mini", "root-only-on-accept", true, func(p *load.Program, tb *kinds.Table) *report.RuleResult {
				return effects.RootOnlyOnAccept(p, "internal/php5", "internal/php7", "internal/badcb")
			})
			if p, _, ok := c.RepoProgram(true); ok {
				w := c.world(p, "cb-guard")
				if w == nil {
					return
				}
				c.Add(effects.CbGuard(w))
				c.Add(effects.CallbackPlumbing(w))
				c.Add(effects.CallbackNoninterference(w))
				c.Add(effects.ErrorForwarding(w))
				c.Add(effects.RootOnlyOnAccept(p, "internal/php5", "internal/php7"))
			}
		},
	}
}
