package main

import (
	"encoding/json"
	"fmt"
	"os"
	"path/filepath"

	"verif/internal/effects"
	"verif/internal/kinds"
	"verif/internal/load"
	"verif/internal/report"
	"verif/internal/visitors"
)

const nsRel, nsRecv = "pkg/visitor/nsresolver", "NamespaceResolver"

// nsFixtures runs the C14 rules on the good and the broken resolver of testdata/fixture/nsr.
func (c *Ctx) nsFixtures() {
	if c.NoFixtures {
		return
	}
	b, err := os.ReadFile(filepath.Join(c.Verif, "testdata", "fixture", "nsr", "slots.json"))
	raw := map[string][]string{}
	if err != nil || json.Unmarshal(b, &raw) != nil {
		c.Run.FixtureFails = append(c.Run.FixtureFails, "nsr: slots.json unreadable")
		return
	}
	slots := map[string]map[string]bool{}
	for k, vs := range raw {
		slots[k] = map[string]bool{}
		for _, v := range vs {
			slots[k][v] = true
		}
	}
	both := func(rule string, fn func(p *load.Program, tb *kinds.Table, rel string) *report.RuleResult) {
		c.Fixture("nsr", rule, true, func(p *load.Program, tb *kinds.Table) *report.RuleResult {
			r := fn(p, tb, "pkg/visitor/nsresolver")
			r.Merge(fn(p, tb, "pkg/visitor/badresolver"), "bad:")
			if os.Getenv("VERIF_FXDEBUG") != "" {
				for _, o := range r.Obls {
					fmt.Fprintf(os.Stderr, "fxdebug %s %s %s: %s\n", rule, o.Key, o.Status, o.Detail)
				}
			}
			return r
		})
	}
	both("name-sinks", func(p *load.Program, tb *kinds.Table, rel string) *report.RuleResult {
		return visitors.NameSinks(p, tb, slots, rel, nsRecv)
	})
	both("ns-declarations", func(p *load.Program, tb *kinds.Table, rel string) *report.RuleResult {
		return visitors.NsDeclarations(p, tb, rel, nsRecv)
	})
	both("namespace-switch", func(p *load.Program, tb *kinds.Table, rel string) *report.RuleResult {
		return visitors.NamespaceSwitch(p, tb, rel, nsRecv)
	})
	both("alias-key-agreement", func(p *load.Program, tb *kinds.Table, rel string) *report.RuleResult {
		return visitors.AliasKeyAgreement(p, rel)
	})
	both("item-independence", func(p *load.Program, tb *kinds.Table, rel string) *report.RuleResult {
		return visitors.ItemIndependence(p, rel)
	})
	both("special-names", func(p *load.Program, tb *kinds.Table, rel string) *report.RuleResult {
		return visitors.SpecialNames(p, rel)
	})
	both("resolve-spec", func(p *load.Program, tb *kinds.Table, rel string) *report.RuleResult {
		r, decided := visitors.ResolveSpec(p, rel)
		if !decided {
			r.Unknown("evaluation", rel, "", "undecided:idiom: the resolver's functions could not be evaluated")
		}
		return r
	})
	c.Fixture("nsr", "who-writes-resolved", true, func(p *load.Program, tb *kinds.Table) *report.RuleResult {
		w, err := effects.NewWorld(p)
		if err != nil {
			panic(err)
		}
		allowed := []string{}
		for _, rel := range []string{"pkg/visitor/nsresolver", "pkg/visitor/badresolver"} {
			allowed = append(allowed, rel+".NamespaceResolver.AddNamespacedName", rel+".NamespaceResolver.ResolveName")
		}
		return effects.WhoWritesMapField(w, "who-writes-resolved", "pkg/visitor/badresolver", "ResolvedNames", allowed...)
	})
}

func init() {
	delete(notApplicable, "C14")
	properties["C14"] = &Property{
		Level:     "other",
		LevelText: "Decides the structural half of name resolution for every program: (name-sinks) the set of fields into which either grammar can put a Name/NameRelative/NameFullyQualified is computed from the grammar actions (flow fixpoint over nonterminals and fields) and must equal the reviewed table of PHP's compile-time name positions; for every resolvable position some resolver method reaches ResolveName/ResolveType with that field and the right alias kind (class, function, const), type positions go through ResolveType, which unwraps Nullable, and parameter types are resolved by every function-like parent; (ns-declarations) the five declaration kinds map the node to [namespace\\]name; (namespace-switch) every path of StmtNamespace installs a fresh context named after the declaration; (alias-key-agreement) for each alias type the key normalisation when storing equals the one when looking up, is PHP's (class and function lower-cased, const raw) and qualified names use the class table; (special-names) exactly self/static/parent and the scalar type names, resp. true/false/null, are left unqualified, case-insensitively, for single-part names only; (who-writes) only AddNamespacedName and ResolveName write ResolvedNames. Relies on C12 (pre-order, source order: imports are seen before uses). Not decided: the string computations for all programs (concatenation of parts, alias substitution).",
		LevelNote: "Oracle: PHP's name-resolution rules as encoded in internal/visitors/nsresolve.go (table of 25 name positions, special names, alias case rules).",
		Technique: "static analysis: flow fixpoint over grammar actions (where names can land) cross-checked with typed-AST extraction of the resolver's calls; path evaluation of the alias tables over the two-point domain {raw, lower-cased}; SSA who-writes",
		Engine:    "visitors",
		Explanation: "name-sinks, ns-declarations, namespace-switch, alias-key-agreement, special-names, who-writes-resolved on pkg/visitor/nsresolver with slot kinds from both grammars. item-independence: no loop of the resolver carries a value chosen for one element of a child list (an alias kind, a prefix) over to the following elements; only accumulators (new value computed from the old one) may live across iterations (seed C14-7: the kind of one item of a mixed group use applied to the items after it).",
		Assumptions: []string{"the traverser presents nodes in pre-order and source order (C12)"},
		TrustedBase: yyTrusted,
		Floors: []report.Floor{
			{Rule: "name-sinks", What: "grammar-name-slots", Min: 25},
			{Rule: "name-sinks", What: "resolver-calls", Min: 24},
			{Rule: "ns-declarations", What: "declaration-kinds", Min: 5},
			{Rule: "namespace-switch", What: "paths", Min: 2},
			{Rule: "alias-key-agreement", What: "alias-types", Min: 3},
			{Rule: "special-names", What: "groups", Min: 2},
			{Rule: "item-independence", What: "loops", Min: 12},
			{Rule: "who-writes-resolved", What: "writers", Min: 2},
		},
		Run: func(c *Ctx) {
			defer c.cleanup()
			c.nsFixtures()
			p, tb, ok := c.RepoProgram(true)
			if !ok {
				return
			}
			slots := map[string]map[string]bool{}
			for _, label := range []string{"php5", "php7"} {
				f, _ := c.flow(c.Repo, label)
				if f == nil {
					return
				}
				for k, v := range f.SlotKinds() {
					if slots[k] == nil {
						slots[k] = map[string]bool{}
					}
					for kk := range v {
						slots[k][kk] = true
					}
				}
			}
			c.Add(visitors.NameSinks(p, tb, slots, nsRel, nsRecv))
			c.Add(visitors.NsDeclarations(p, tb, nsRel, nsRecv))
			c.Add(visitors.NamespaceSwitch(p, tb, nsRel, nsRecv))
			// what AddAlias / ResolveName compute is decided by evaluation when they can be evaluated; the
			// structural rules then only add what they recognise
			rs, decided := visitors.ResolveSpec(p, nsRel)
			aka, spn := visitors.AliasKeyAgreement(p, nsRel), visitors.SpecialNames(p, nsRel)
			if decided {
				c.Add(rs)
				clean := true
				for _, o := range rs.Obls {
					if o.Status != report.Discharged {
						clean = false
					}
				}
				if clean {
					visitors.Yield(aka, "resolve-spec")
					visitors.Yield(spn, "resolve-spec")
				}
			}
			c.Add(aka)
			c.Add(spn)
			c.Add(visitors.ItemIndependence(p, nsRel))
			if w := c.world(p, "who-writes-resolved"); w != nil {
				c.Add(effects.WhoWritesMapField(w, "who-writes-resolved", nsRel, "ResolvedNames", "pkg/visitor/nsresolver.NamespaceResolver.AddNamespacedName", "pkg/visitor/nsresolver.NamespaceResolver.ResolveName"))
			}
		},
	}
}
