package main

import (
	"encoding/json"
	"fmt"
	"os"
	"path/filepath"
	"sort"
	"strings"

	"verif/internal/kinds"
	"verif/internal/load"
	"verif/internal/report"
	"verif/internal/scandfa"
	"verif/internal/yacc"
	"verif/internal/yyflow"
)

type Ctx struct {
	Repo, Verif, Tier string
	Run               *report.Run
	NoFixtures        bool

	progs map[string]*load.Program
	tbs   map[string]*kinds.Table

	langs    map[string]*yacc.Lang
	scans    map[string]*scandfa.Analysis
	flows    map[string]*yyflow.Lang
	shapes   map[string]map[string]*yyflow.Shape
	cleanups []func()
}

func (c *Ctx) cleanup() {
	for _, f := range c.cleanups {
		f()
	}
	c.cleanups = nil
}

type Property struct {
	Level       string
	LevelText   string
	LevelNote   string
	Technique   string
	Engine      string
	Explanation string
	Assumptions []string
	TrustedBase []string
	Floors      []report.Floor
	Run         func(*Ctx)
}

// Program loads (once) the module in dir; deep includes dependencies for SSA.
func (c *Ctx) Program(dir string, deep bool) (*load.Program, error) {
	if c.progs == nil {
		c.progs = map[string]*load.Program{}
		c.tbs = map[string]*kinds.Table{}
	}
	key := fmt.Sprintf("%s|%v", dir, deep)
	if p, ok := c.progs[key]; ok {
		return p, nil
	}
	if !deep {
		if p, ok := c.progs[fmt.Sprintf("%s|%v", dir, true)]; ok {
			return p, nil
		}
	}
	p, err := load.Load(dir, deep)
	if err != nil {
		return nil, err
	}
	c.progs[key] = p
	return p, nil
}

func (c *Ctx) Kinds(p *load.Program) (*kinds.Table, error) {
	if tb, ok := c.tbs[p.Dir]; ok {
		return tb, nil
	}
	tb, err := kinds.Build(p)
	if err != nil {
		return nil, err
	}
	c.tbs[p.Dir] = tb
	return tb, nil
}

func (c *Ctx) Add(r *report.RuleResult) { c.Run.Results = append(c.Run.Results, r) }

func (c *Ctx) Fail(rule, key, why string) {
	res := report.NewResult(rule)
	res.Unknown(key, "-", "", "undecided:"+why)
	c.Add(res)
}

// RepoProgram loads /repo and its kind table or records an undecided result.
func (c *Ctx) RepoProgram(deep bool) (*load.Program, *kinds.Table, bool) {
	p, err := c.Program(c.Repo, deep)
	if err != nil {
		c.Fail("load", "repo", "load: "+err.Error())
		return nil, nil, false
	}
	tb, err := c.Kinds(p)
	if err != nil {
		c.Fail("load", "kinds", "kinds: "+err.Error())
		return nil, nil, false
	}
	return p, tb, true
}

// Fixture runs rule on the fixture module testdata/fixture/<name> and
// compares the set of non-discharged keys with expect.json[rule]. At least
// one obligation must be discharged as well (the rule is exercised both ways).
func (c *Ctx) Fixture(name, rule string, deep bool, run func(p *load.Program, tb *kinds.Table) *report.RuleResult) {
	if c.NoFixtures {
		return
	}
	dir := filepath.Join(c.Verif, "testdata", "fixture", name)
	label := name + ":" + rule
	fail := func(msg string) {
		c.Run.FixtureFails = append(c.Run.FixtureFails, label+": "+msg)
	}
	p, err := c.Program(dir, deep)
	if err != nil {
		fail("load: " + err.Error())
		return
	}
	tb, err := c.Kinds(p)
	if err != nil {
		fail("kinds: " + err.Error())
		return
	}
	var res *report.RuleResult
	func() {
		defer func() {
			if r := recover(); r != nil {
				fail(fmt.Sprintf("panic: %v", r))
			}
		}()
		res = run(p, tb)
	}()
	if res == nil {
		return
	}
	c.compareFixture(name, rule, dir, res)
}

// compareFixture compares the non-discharged keys of res with expect.json[rule] in dir.
func (c *Ctx) compareFixture(name, rule, dir string, res *report.RuleResult) {
	label := name + ":" + rule
	fail := func(msg string) {
		c.Run.FixtureFails = append(c.Run.FixtureFails, label+": "+msg)
	}
	b, err := os.ReadFile(filepath.Join(dir, "expect.json"))
	if err != nil {
		fail(err.Error())
		return
	}
	var exp map[string][]string
	if err := json.Unmarshal(b, &exp); err != nil {
		fail("expect.json: " + err.Error())
		return
	}
	if os.Getenv("VERIF_DUMP") != "" {
		for _, ob := range res.Obls {
			fmt.Printf("  fixture[%s] [%s] %s: %s\n", label, ob.Status, ob.Key, ob.Detail)
		}
	}
	want := map[string]bool{}
	for _, k := range exp[rule] {
		want[k] = true
	}
	got := map[string]bool{}
	ok := 0
	for _, ob := range res.Obls {
		if ob.Status == report.Discharged {
			ok++
		} else {
			got[ob.Key] = true
		}
	}
	var missing, extra []string
	for k := range want {
		if !got[k] {
			missing = append(missing, k)
		}
	}
	for k := range got {
		if !want[k] {
			extra = append(extra, k)
		}
	}
	sort.Strings(missing)
	sort.Strings(extra)
	if len(missing) > 0 {
		fail("bad construct not reported: " + strings.Join(missing, ", "))
	}
	if len(extra) > 0 {
		fail("good construct reported: " + strings.Join(extra, ", "))
	}
	if ok == 0 {
		fail("no obligation discharged on the fixture")
	}
	if len(want) == 0 {
		fail("fixture has no bad construct for this rule")
	}
	c.Run.FixtureNotes = append(c.Run.FixtureNotes, fmt.Sprintf("%s: %d bad constructs reported as expected, %d good ones discharged", label, len(want), ok))
}
