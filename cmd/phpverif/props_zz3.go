package main

import (
	"verif/internal/effects"
	"verif/internal/kinds"
	"verif/internal/load"
	"verif/internal/report"
	"verif/internal/yacc"
)

// Rules added after the third round of seeded changes (this file's init runs after props_zz.go's).

func (c *Ctx) ssaRepo(rule string, run func(w *effects.World) *report.RuleResult) {
	p, _, ok := c.RepoProgram(true)
	if !ok {
		return
	}
	w := c.world(p, rule)
	if w == nil {
		return
	}
	c.Add(run(w))
}

var tokenWriters = map[string]string{
	"internal/scanner":      "fills in the tokens it hands out",
	"pkg/token":             "the pool",
	"pkg/visitor/formatter": "replaces tokens by canonical ones: its purpose",
}

var positionWriters = map[string]string{
	"internal/scanner":  "token positions",
	"internal/position": "the builder fills in the position it has just taken from the pool",
	"pkg/position":      "constructor and pool",
}

// the start production of both grammars empties the text of the end-of-input token before it becomes Root.EndTkn
var tokenWritersReviewed = map[string]string{
	"internal/php5.yyParserImpl.Parse|Value = nil": "the start production clears the text of the end-of-input token (whose [ts,te) is the last match, not text of its own) before storing it as Root.EndTkn",
	"internal/php7.yyParserImpl.Parse|Value = nil": "the start production clears the text of the end-of-input token (whose [ts,te) is the last match, not text of its own) before storing it as Root.EndTkn",
}

func (c *Ctx) tokenWritersRule() {
	c.ssaRepo("token-writers", func(w *effects.World) *report.RuleResult {
		return effects.FieldWriters(w, "token-writers", "pkg/token.Token", tokenWriters, tokenWritersReviewed)
	})
}

func (c *Ctx) positionWritersRule() {
	c.ssaRepo("position-writers", func(w *effects.World) *report.RuleResult {
		return effects.FieldWriters(w, "position-writers", "pkg/position.Position", positionWriters, nil)
	})
}

func (c *Ctx) srcPlumbingRule() {
	c.ssaRepo("src-plumbing", func(w *effects.World) *report.RuleResult {
		return effects.SrcPlumbing(w, "pkg/parser", "internal/scanner")
	})
}

func extendProp(id, explain string, floors []report.Floor, more func(c *Ctx)) {
	p := properties[id]
	run := p.Run
	p.Explanation += " " + explain
	p.LevelText += " Also decided (added after the seeded rounds): " + explain
	p.Floors = append(p.Floors, floors...)
	p.Run = func(c *Ctx) {
		run(c)
		more(c)
	}
}

func init() {
	const tw = "token-writers: fields of an existing token.Token are written only by the scanner, the token pool and the formatter; the parser wrappers and the grammar actions hand tokens on untouched (seed C07-7: the wrapper's Lex moved comments from the offending token to the next one)."
	const pw = "position-writers: fields of an existing position.Position are written only by the scanner, the position builder and pkg/position; nothing rewrites a position in place after it was built (seed C10-8: a chain link's start patched through a pointer shared with its name)."
	const sp = "src-plumbing: parser.Parse hands its own []byte parameter to the scanner unchanged, and the scanner's constructor leaves the cursor and token bounds at 0 (seeds C02-8, C04-9: a byte order mark skipped or trimmed)."
	twF := []report.Floor{{Rule: "token-writers", What: "stores", Min: 10}}
	pwF := []report.Floor{{Rule: "position-writers", What: "stores", Min: 8}}
	spF := []report.Floor{{Rule: "src-plumbing", What: "ctor-calls", Min: 1}}
	extendProp("C02", tw+" "+sp, append(twF, spF...), func(c *Ctx) { c.tokenWritersRule(); c.srcPlumbingRule() })
	extendProp("C04", tw+" "+pw+" "+sp, append(append(twF, pwF...), spF...), func(c *Ctx) { c.tokenWritersRule(); c.positionWritersRule(); c.srcPlumbingRule() })
	extendProp("C05", pw, pwF, func(c *Ctx) { c.positionWritersRule() })
	extendProp("C07", tw, twF, func(c *Ctx) { c.tokenWritersRule() })
	extendProp("C10", pw, pwF, func(c *Ctx) { c.positionWritersRule() })
	extendProp("C10", "prec-oracle on both grammars: operators the two languages share group alike only if both precedence tables agree with the one oracle (seed C10-7: '.' moved below '+' in the PHP 7 grammar only). newline-symmetry: the shared scanner's version-dependent helpers treat LF and CR alike (seed C10-9).",
		[]report.Floor{{Rule: "prec-oracle", What: "operators", Min: 80}},
		func(c *Ctx) {
			defer c.cleanup()
			c.grammarRule("prec-oracle", yacc.PrecOracle)
			c.scanRun("newline-symmetry")
		})
	extendProp("C03", "newline-symmetry: a valid program is valid with either line ending (seed C03-9: heredoc end test that accepts only LF after the label). num-classify: every path of the scanner's actions that returns T_LNUMBER has found the error of strconv.ParseInt (bit size 0 or 64) on the literal nil; otherwise the literal is a float (seed C03-8: literals shorter than 20 bytes returned as integers unparsed).",
		[]report.Floor{{Rule: "num-classify", What: "lnumber-blocks", Min: 5}}, func(c *Ctx) { defer c.cleanup(); c.scanRun("newline-symmetry", "num-classify") })
	const ps = "pred-spec: the transition condition that decides where a one-line comment, a double-quoted string and a backquoted string end is evaluated from source (the look-ahead predicates and what they call interpreted) on every combination of the window bytes data[p-2..p+1], over the exact quotient of the bytes by the constants the code compares them with, and of the distance to the end of the input; the result must equal PHP's rule for that place (seed C08-9: `?>` as the last two bytes of the input no longer ended a `//` comment)."
	psF := []report.Floor{{Rule: "pred-spec", What: "conditions", Min: 3}, {Rule: "pred-spec", What: "scenarios", Min: 100000}}
	for _, id := range []string{"C08", "C03", "C02", "C01"} {
		extendProp(id, ps, psF, func(c *Ctx) { defer c.cleanup(); c.scanRun("pred-spec") })
	}
	const vp = "visitor-per-item: in the command's worker loops every printer, dumper, traverser, formatter or name resolver is created in the iteration that uses it; one created before the loop carries its state (the printer's mode and last chunk, the resolver's tables) from one file into the next (seed C02-9: -pb printed a spurious close tag in front of every later file that starts with HTML)."
	vpF := []report.Floor{{Rule: "visitor-per-item", What: "uses", Min: 4}}
	for _, id := range []string{"C02", "C11", "C13", "C14", "C15"} {
		extendProp(id, vp, vpF, func(c *Ctx) {
			c.Fixture("mini", "visitor-per-item", true, func(p *load.Program, tb *kinds.Table) *report.RuleResult {
				w, _ := effects.NewWorld(p)
				r := effects.VisitorPerItem(w, "cmd/goodcli")
				r.Merge(effects.VisitorPerItem(w, "cmd/badcli"), "bad:")
				return r
			})
			c.ssaRepo("visitor-per-item", func(w *effects.World) *report.RuleResult { return effects.VisitorPerItem(w, "cmd/php-parser") })
		})
	}
	extendProp("C18", "no-global-writes on the packages that own pools: a pool is reachable only from the scanner or builder of one parse, never from a package-level variable (seed C18-9: pools shared by all lexers).",
		[]report.Floor{{Rule: "no-global-writes", What: "functions", Min: 20}},
		func(c *Ctx) {
			c.ssaRepo("no-global-writes", func(w *effects.World) *report.RuleResult {
				return effects.NoGlobalWrites(w, "internal/scanner", "internal/position", "pkg/token", "pkg/position")
			})
		})
	extendProp("C13", "no-global-writes on the observer packages: an observer keeps nothing between two runs outside the object the caller created, so a second run sees what the first saw (seed C13-9: namespaces remembered in a package-level map).",
		[]report.Floor{{Rule: "no-global-writes", What: "functions", Min: 100}},
		func(c *Ctx) {
			c.ssaRepo("no-global-writes", func(w *effects.World) *report.RuleResult {
				return effects.NoGlobalWrites(w, "pkg/visitor/printer", "pkg/visitor/dumper", "pkg/visitor/traverser", "pkg/visitor/nsresolver", "pkg/visitor")
			})
		})
}
