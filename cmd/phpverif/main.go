// phpverif: static checks for the properties in /verif/properties.jsonl.
//
//	phpverif check C12 --tier quick
package main

import (
	"flag"
	"fmt"
	"os"
	"path/filepath"
	"runtime/debug"
	"strconv"
	"time"

	"verif/internal/report"
)

func main() {
	if len(os.Args) == 2 && os.Args[1] == "manifest" {
		writeManifest()
		return
	}
	if len(os.Args) < 3 || os.Args[1] != "check" {
		fmt.Fprintln(os.Stderr, "usage: phpverif check <ID> [--tier quick|thorough] [--repo /repo] [--verif /verif]")
		os.Exit(2)
	}
	id := os.Args[2]
	fs := flag.NewFlagSet("check", flag.ExitOnError)
	tier := fs.String("tier", envOr("VERIF_TIER", "quick"), "quick or thorough")
	repo := fs.String("repo", "/repo", "repository under analysis")
	verif := fs.String("verif", "/verif", "verification directory")
	noFixtures := fs.Bool("no-fixtures", false, "skip fixtures (development only)")
	fs.Parse(os.Args[3:])
	if *tier != "quick" && *tier != "thorough" {
		*tier = "quick"
	}
	seed, _ := strconv.Atoi(os.Getenv("VERIF_SEED"))

	prop, ok := properties[id]
	if !ok {
		fmt.Fprintf(os.Stderr, "unknown property %s\n", id)
		os.Exit(2)
	}
	run := &report.Run{Property: id, Tier: *tier, Level: prop.Level, Seed: seed, Start: time.Now(), VerifDir: *verif, RepoDir: *repo,
		Explanation: prop.Explanation, Assumptions: prop.Assumptions, TrustedBase: prop.TrustedBase,
		CheckerCmd: fmt.Sprintf("bin/phpverif check %s --tier %s", id, *tier), Extra: map[string]interface{}{}}
	ff, err := report.LoadFindings(filepath.Join(*verif, "known_findings.json"))
	if err != nil {
		fmt.Fprintln(os.Stderr, "cannot read known findings:", err)
		ff = &report.FindingsFile{}
		run.FixtureFails = append(run.FixtureFails, "known_findings.json unreadable: "+err.Error())
	}
	os.Setenv("VERIF_TIER", *tier) // the evaluated rules widen their scenario families in the thorough tier
	ctx := &Ctx{Repo: *repo, Verif: *verif, Tier: *tier, Run: run, NoFixtures: *noFixtures}

	func() {
		defer func() {
			if r := recover(); r != nil {
				res := report.NewResult("analyser")
				res.Unknown("panic", "-", "", fmt.Sprintf("undecided:panic: %v\n%s", r, debug.Stack()))
				run.Results = append(run.Results, res)
			}
		}()
		prop.Run(ctx)
	}()
	os.Exit(run.Finish(ff, prop.Floors))
}

func envOr(k, d string) string {
	if v := os.Getenv(k); v != "" {
		return v
	}
	return d
}
