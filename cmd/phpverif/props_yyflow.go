package main

import (
	"verif/internal/effects"
	"fmt"
	"os"
	"sort"
	"strings"

	"verif/internal/kinds"
	"verif/internal/load"
	"verif/internal/report"
	"verif/internal/small"
	"verif/internal/visitors"
	"verif/internal/yyflow"
)

// flow interprets the actions of one grammar of the tree in dir (cached).
func (c *Ctx) flow(dir, label string) (*yyflow.Lang, map[string]*yyflow.Shape) {
	key := dir + "|" + label
	if c.flows == nil {
		c.flows = map[string]*yyflow.Lang{}
		c.shapes = map[string]map[string]*yyflow.Shape{}
	}
	if f, ok := c.flows[key]; ok {
		return f, c.shapes[key]
	}
	c.flows[key] = nil
	yl := c.lang(dir, label)
	if yl == nil {
		return nil, nil
	}
	p, err := c.Program(dir, false)
	if err != nil {
		c.Fail("linear", label+"/load", "load: "+err.Error())
		return nil, nil
	}
	f, err := yyflow.Extract(p, yl)
	if err != nil {
		c.Fail("linear", label+"/actions", "actions: "+err.Error())
		return nil, nil
	}
	for _, pr := range f.Problems {
		c.Fail("linear", label+"/actions:"+pr, "action extraction: "+pr)
	}
	// two passes: the shape summary of the first pass prunes infeasible branches in the second
	f.Run(nil)
	f.Run(f.Shapes())
	c.flows[key] = f
	c.shapes[key] = f.Shapes()
	return f, c.shapes[key]
}

// flowRule runs a yyflow rule on both grammars of /repo and merges the results.
func (c *Ctx) flowRule(rule string, fn func(*yyflow.Lang, map[string]*yyflow.Shape) *report.RuleResult) {
	res := report.NewResult(rule)
	for _, label := range []string{"php5", "php7"} {
		f, sh := c.flow(c.Repo, label)
		if f == nil {
			continue
		}
		r := fn(f, sh)
		res.Obls = append(res.Obls, r.Obls...)
		for k, v := range r.Instances {
			res.Instances[k] += v
		}
	}
	c.Add(res)
}


// flowFixture runs a yyflow rule on the yok/ybad fixture grammars of the mini module.
func (c *Ctx) flowFixture(rule string, fn func(*yyflow.Lang, map[string]*yyflow.Shape) *report.RuleResult) {
	if c.NoFixtures {
		return
	}
	dir := c.Verif + "/testdata/fixture/mini"
	res := report.NewResult(rule)
	for _, label := range []string{"yok", "ybad"} {
		f, sh := c.flow(dir, label)
		if f == nil {
			c.Run.FixtureFails = append(c.Run.FixtureFails, "mini:"+rule+": fixture grammar "+label+" could not be analysed")
			return
		}
		r := fn(f, sh)
		res.Obls = append(res.Obls, r.Obls...)
	}
	if os.Getenv("VERIF_FXDEBUG") != "" {
		for _, o := range res.Obls {
			fmt.Fprintf(os.Stderr, "fxdebug %s %s %s: %s\n", rule, o.Key, o.Status, o.Detail)
		}
	}
	c.compareFixture("mini", rule, dir, res)
}

type flowFn = func(*yyflow.Lang, map[string]*yyflow.Shape) *report.RuleResult

var flowRules = map[string]flowFn{
	"linear":            func(f *yyflow.Lang, sh map[string]*yyflow.Shape) *report.RuleResult { return f.Linear(sh) },
	"order":             func(f *yyflow.Lang, sh map[string]*yyflow.Shape) *report.RuleResult { return f.Order(sh) },
	"pos-span":          func(f *yyflow.Lang, sh map[string]*yyflow.Shape) *report.RuleResult { return f.PosSpan(sh) },
	"leaf-value":        func(f *yyflow.Lang, sh map[string]*yyflow.Shape) *report.RuleResult { return f.LeafValue() },
	"nil-in-list":       func(f *yyflow.Lang, sh map[string]*yyflow.Shape) *report.RuleResult { return f.NilInList(sh) },
	"error-yields-nil":  func(f *yyflow.Lang, sh map[string]*yyflow.Shape) *report.RuleResult { return f.ErrorYieldsNil() },
	"no-carrier-escape": func(f *yyflow.Lang, sh map[string]*yyflow.Shape) *report.RuleResult { return f.NoCarrierEscape(sh) },
	"kind-of-operator":  func(f *yyflow.Lang, sh map[string]*yyflow.Shape) *report.RuleResult { return f.KindOfOperator() },
	"grammar-ignores-trivia": func(f *yyflow.Lang, sh map[string]*yyflow.Shape) *report.RuleResult { return f.IgnoresTrivia() },
	"report-positions":  func(f *yyflow.Lang, sh map[string]*yyflow.Shape) *report.RuleResult { return f.ReportPositions(sh) },
	"pos-distinct":      func(f *yyflow.Lang, sh map[string]*yyflow.Shape) *report.RuleResult { return f.PosDistinct(sh) },
	"int-parse-decimal": func(f *yyflow.Lang, sh map[string]*yyflow.Shape) *report.RuleResult { return f.IntParseDecimal() },
	"empty-list-literal": func(f *yyflow.Lang, sh map[string]*yyflow.Shape) *report.RuleResult { return f.EmptyListLiteral() },
	"list-index":        func(f *yyflow.Lang, sh map[string]*yyflow.Shape) *report.RuleResult { return f.ListIndex(sh) },
	"fold-span":         func(f *yyflow.Lang, sh map[string]*yyflow.Shape) *report.RuleResult { return f.FoldSpan() },
	"nil-deref":         func(f *yyflow.Lang, sh map[string]*yyflow.Shape) *report.RuleResult { return f.NilDeref() },
	"assert-safe":       func(f *yyflow.Lang, sh map[string]*yyflow.Shape) *report.RuleResult { return f.AssertSafe(sh) },
}

// flows runs the named yyflow rules on their fixtures and on /repo.
func (c *Ctx) flows_(rules ...string) {
	for _, r := range rules {
		c.flowFixture(r, flowRules[r])
		c.flowRule(r, flowRules[r])
	}
}


func (c *Ctx) siblings() {
	f5, _ := c.flow(c.Repo, "php5")
	f7, _ := c.flow(c.Repo, "php7")
	if f5 != nil && f7 != nil {
		c.Add(yyflow.Siblings(f5, f7))
	}
	// fixture: the good fixture grammar against the broken one
	if !c.NoFixtures {
		dir := c.Verif + "/testdata/fixture/mini"
		a, _ := c.flow(dir, "yok")
		b, _ := c.flow(dir, "ybad")
		if a == nil || b == nil {
			c.Run.FixtureFails = append(c.Run.FixtureFails, "mini:siblings-5-7: fixture grammars could not be analysed")
			return
		}
		c.compareFixture("mini", "siblings-5-7", dir, yyflow.Siblings(a, b))
	}
}

// poolRule: tokens and positions handed out by the pools are pairwise distinct (C18's rule, a necessary condition here).
func (c *Ctx) poolRule() {
	c.Fixture("mini", "pool-typestate", false, func(p *load.Program, tb *kinds.Table) *report.RuleResult {
		return small.PoolRule(p, "pkg/token", "pkg/badpool1", "pkg/badpool2", "pkg/badpool3", "pkg/badpool4")
	})
	if p, _, ok := c.RepoProgram(false); ok {
		c.Add(small.PoolRule(p, "pkg/token", "pkg/position"))
	}
}

// byteClasses: label-character predicates of printer and scanner against PHP's definition.
func (c *Ctx) byteClasses() {
	c.Fixture("mini", "byte-class", false, func(p *load.Program, tb *kinds.Table) *report.RuleResult {
		return small.ByteClasses(p, small.LabelPredicate("pkg/byteclass", "good", false), small.LabelPredicate("pkg/byteclass", "goodStart", true),
			small.LabelPredicate("pkg/byteclass", "noDigits", false), small.LabelPredicate("pkg/byteclass", "viaUnicode", false))
	})
	if p, _, ok := c.RepoProgram(false); ok {
		c.Add(small.ByteClasses(p, small.LabelPredicates()...))
	}
}

func (c *Ctx) builderEnds() {
	c.Fixture("mini", "builder-ends", true, func(p *load.Program, tb *kinds.Table) *report.RuleResult {
		w, err := effects.NewWorld(p)
		if err != nil {
			r := report.NewResult("builder-ends")
			r.Unknown("ssa", "-", "", "undecided:ssa: "+err.Error())
			return r
		}
		r := effects.BuilderEnds(w, "internal/position")
		r.Merge(effects.BuilderEnds(w, "internal/badposition"), "bad:")
		return r
	})
	if p, _, ok := c.RepoProgram(true); ok {
		if w := c.world(p, "builder-ends"); w != nil {
			c.Add(effects.BuilderEnds(w, "internal/position"))
		}
	}
}

var yyTrusted = append([]string{"goyacc (golang.org/x/tools v0.29.0/cmd/goyacc) as reference generator", "the abstract interpreter for grammar actions in internal/yyflow (anything outside its Go fragment is undecided and fails)"}, baseTrusted...)

func init() {
	properties["YY"] = &Property{ // development aid: every grammar-action rule at once (not registered in the manifest)
		Level: "other", Engine: "yyflow",
		Run: func(c *Ctx) {
			defer c.cleanup()
			c.flows_("linear", "order", "pos-span", "leaf-value", "nil-in-list", "error-yields-nil", "no-carrier-escape", "assert-safe")
			c.flowRule("kind-of-operator", flowRules["kind-of-operator"])
			c.siblings()
			if os.Getenv("VERIF_DUMP") != "" {
				for _, label := range []string{"php5", "php7"} {
					f, _ := c.flow(c.Repo, label)
					for nm, sh := range c.shapes[c.Repo+"|"+label] {
						if sh.MayNil || sh.Unknown {
							fmt.Printf("  shape[%s] %s maynil=%v unknown=%v\n", label, nm, sh.MayNil, sh.Unknown)
						}
					}
					pr := f.TreePresence(c.shapes[c.Repo+"|"+label])
					var ts []string
					for t := range pr {
						ts = append(ts, t)
					}
					sort.Strings(ts)
					for _, t := range ts {
						var al, ne []string
						for k := range pr[t].Always {
							al = append(al, k)
						}
						for k := range pr[t].NonEmpty {
							ne = append(ne, k)
						}
						sort.Strings(al)
						sort.Strings(ne)
						fmt.Printf("  presence[%s] %s (%d sources): always %s | non-empty %s\n", label, t, pr[t].Sources, strings.Join(al, ","), strings.Join(ne, ","))
					}
					sk := f.SlotKinds()
					var ks []string
					for k := range sk {
						ks = append(ks, k)
					}
					sort.Strings(ks)
					for _, k := range ks {
						var vs []string
						for v := range sk[k] {
							vs = append(vs, strings.TrimPrefix(v, "ast."))
						}
						sort.Strings(vs)
						fmt.Printf("  slot[%s] %s: %s\n", label, k, strings.Join(vs, " "))
					}
				}
			}
		},
	}
	delete(notApplicable, "C02")
	properties["C02"] = &Property{
		Level:     "other",
		LevelText: "Round-trip equality is a statement about run-time values; what is decided is the chain of structural conditions each of which is necessary for it, for every production of both grammars and every node kind: (1) the compiled parser is the grammar's (tables-sync); (2) every grammar action, interpreted symbolically on every path, places every right-hand-side token, node and list exactly once in the tree it returns (linear) — a dropped token is lost text, a token placed twice is printed twice — except on paths that deliver a semantic error; (3) inside every node built by an action the declaration order of the fields is the source order of what is put into them (order), and parser-private carrier objects never become children of a node (no-carrier-escape); (4) the printer emits every slot of every kind exactly once in declaration order through helpers that write free-floating tokens and then the token (print-slots, print-helpers, shared with C15); (5) the places where the printer writes bytes that are not a token's own are enumerated and must equal the reviewed table (print-inserts). (6) the scanner's half: on the reconstructed transition system of the generated scanner every consumed byte range is returned as a token, recorded as free-floating or reported (no-drop), value and position of free-floating tokens come from the same bytes (ff-span), scanning resumes exactly at the end of the previous token (resume-at-te), and transition conditions do not move the cursor (pred-pure). Not decided: value-level interactions inside printer.write and the end-of-input token.",
		LevelNote: "Three insertion sites of the printer are genuinely reachable from parsed trees and are listed as known findings.",
		Technique: "static analysis: abstract interpretation of grammar actions (linearity / ordering of token placement), table equivalence with the regenerated grammar, typed-AST slot analysis of the printer, enumeration of byte-insertion sites",
		Engine:    "yyflow",
		Explanation: "tables-sync, linear, order, no-carrier-escape on both grammars; pool-typestate (tokens are distinct objects); pos-pairing, ff-span, resume-at-te, no-drop, pred-pure on the scanner; print-slots, print-helpers, print-inserts on pkg/visitor/printer.",
		TrustedBase: yyTrusted,
		Floors: []report.Floor{
			{Rule: "tables-sync", What: "tables", Min: 22},
			{Rule: "linear", What: "productions", Min: 1014},
			{Rule: "linear", What: "resources", Min: 2700},
			{Rule: "order", What: "objects", Min: 900},
			{Rule: "print-slots", What: "methods", Min: 155},
			{Rule: "print-inserts", What: "insert-sites", Min: 3},
		},
		Run: func(c *Ctx) {
			defer c.cleanup()
			c.grammarRule("tables-sync", syncRule)
			c.flows_("linear", "order", "no-carrier-escape")
			c.poolRule()
			c.scanRun("token-rules")
			c.ssaScan("pred-pure")
			c.byteClasses()
			c.visitorRule("print-slots", visitors.PrintSlots)
			if p, tb, ok := c.RepoProgram(false); ok {
				c.Add(visitors.PrintHelpers(p, tb))
				c.Add(visitors.PrintInserts(p, tb))
			}
		},
	}
	delete(notApplicable, "C05")
	properties["C05"] = &Property{
		Level:     "other",
		LevelText: "Decided for every production of both grammars, on every path of its action: each pkg/ast node built gets a position from a builder combinator whose first boundary is the first and whose last boundary is the last thing placed in the node (possibly-nil/possibly-empty boundary members are skipped the way the action's own nil tests skip them; the three documented conventions are a table); a node that arrives without a valid position (built without one, or extended after it was computed) is never placed in the tree without setting it; the 12 combinators take start line/offset from the start of their first argument and end line/offset from the end of their last and return a fresh position (builder-ends); children are placed exactly once and in field order = source order (linear, order), so spans nest and siblings do not overlap. Not decided: line numbers (they are the scanner's, C04), and spans inside PHP 5's iterative member-access chains (fold loops), where only the per-iteration combinator is checked.",
		LevelNote: "Three wrong spans pinned by the repository's own tests are listed as known findings (goto label, \"${a[0]}\" in both grammars).",
		Technique: "static analysis: abstract interpretation of grammar actions (boundary arguments vs. placed content), shape/nullability fixpoint over nonterminals, typed-AST check of the position combinators",
		Engine:    "yyflow",
		Explanation: "pos-span, linear, order on both grammars; builder-ends on internal/position; pool-typestate (positions are distinct objects); tables-sync.",
		TrustedBase: yyTrusted,
		Floors: []report.Floor{
			{Rule: "pos-span", What: "nodes", Min: 900},
			{Rule: "builder-ends", What: "combinators", Min: 12},
			{Rule: "linear", What: "productions", Min: 1014},
		},
		Run: func(c *Ctx) {
			defer c.cleanup()
			c.grammarRule("tables-sync", syncRule)
			c.flows_("pos-span", "linear", "order")
			c.builderEnds()
			c.poolRule()
		},
	}
	delete(notApplicable, "C10")
	properties["C10"] = &Property{
		Level:     "other",
		LevelText: "Productions of the two grammars are paired by what they accept and build (node kind + right-hand side with terminals by name and nonterminals by semantic type); for every pair the symbolic summaries of the actions must be identical: same fields from the same right-hand-side positions, same nested nodes, same position combinator with the same boundaries, same leaf values, same updates (siblings-5-7, 160 pairs). Both grammars are individually subject to linear / order / pos-span / leaf-value, and both are the compiled automata (tables-sync). Not decided: equality of whole trees for constructs the grammars build through different productions (PHP 5's iterative member chains vs PHP 7's left-recursive ones: listed in the evidence as unpaired), and the shared scanner's behaviour.",
		LevelNote: "The PHP 5 goto-label span differs from PHP 7's and is a known finding.",
		Technique: "static analysis: cross-checking sibling implementations — symbolic summaries of paired grammar actions",
		Engine:    "yyflow",
		Explanation: "siblings-5-7 plus linear, order, pos-span, leaf-value on both grammars.",
		TrustedBase: yyTrusted,
		Floors: []report.Floor{
			{Rule: "siblings-5-7", What: "pairs", Min: 150},
			{Rule: "linear", What: "productions", Min: 1014},
			{Rule: "pos-span", What: "nodes", Min: 900},
			{Rule: "leaf-value", What: "leaves", Min: 190},
		},
		Run: func(c *Ctx) {
			defer c.cleanup()
			c.grammarRule("tables-sync", syncRule)
			c.siblings()
			c.flows_("linear", "order", "pos-span", "leaf-value")
		},
	}
	// C06: semantic errors raised by actions
	{
		p := properties["C06"]
		run := p.Run
		p.Explanation += " report-positions (yyflow): every semantic error delivered by a grammar action has a constant non-empty message and the Position of a token or of a node whose Position every producing action sets; tables-sync/skeleton-sync: the driver is the stock goyacc driver, which returns non-zero only after calling Error; assert-safe: no action can panic in a type assertion on a nil or differently typed right-hand-side value before it reports (a panic is neither a report nor a tree)."
		p.TrustedBase = append(p.TrustedBase, yyTrusted[:2]...)
		p.Floors = append(p.Floors, report.Floor{Rule: "report-positions", What: "reports", Min: 4}, report.Floor{Rule: "tables-sync", What: "skeleton-funcs", Min: 16}, report.Floor{Rule: "assert-safe", What: "assertions", Min: 230})
		p.Run = func(c *Ctx) {
			run(c)
			defer c.cleanup()
			c.grammarRule("tables-sync", syncRule)
			c.flowRule("report-positions", flowRules["report-positions"])
			c.flows_("assert-safe")
		}
	}
	// C03: add the action-level clauses
	{
		p := properties["C03"]
		run := p.Run
		p.LevelText = strings.Replace(p.LevelText, "and the node built by each production (decided by the yyflow rules when claimed).", "and the full tree for arbitrary derivations. Decided in addition, by abstract interpretation of every action: productions of the form `operand OP operand`, `OP operand`, `operand OP` build the node kind PHP's syntax gives that operator with the operands in the roles their position dictates (kind-of-operator, an oracle table of 90 operators), leaf nodes carry the text of their own token (leaf-value), and field order is source order (order); on the reconstructed scanner automaton every state of the php machine treats upper- and lower-case letters alike (case-fold: keywords and casts are case-insensitive), and the only version-dependent lexing is the flexible-heredoc test, which switches exactly at 7.3 (version-flow).", 1)
		p.Technique += "; abstract interpretation of grammar actions against an operator→node-kind oracle"
		p.TrustedBase = yyTrusted
		p.Floors = append(p.Floors, report.Floor{Rule: "kind-of-operator", What: "operator-productions", Min: 160}, report.Floor{Rule: "leaf-value", What: "leaves", Min: 190})
		p.Run = func(c *Ctx) {
			run(c)
			defer c.cleanup()
			c.flowRule("kind-of-operator", flowRules["kind-of-operator"])
			c.flows_("leaf-value", "order")
			c.scanRun("case-fold")
			c.Fixture("mini", "version-flow", false, func(p *load.Program, tb *kinds.Table) *report.RuleResult { return small.VersionFlow(p) })
			if p, _, ok := c.RepoProgram(false); ok {
				c.Add(small.VersionFlow(p))
			}
		}
	}
	// C07: add the action-level clauses
	{
		p := properties["C07"]
		run := p.Run
		p.LevelText = strings.Replace(p.LevelText, "and the no-invention/no-duplication clause for recovered trees (needs the action rules linear/order, claimed when built).", "Decided in addition, by abstract interpretation of every action: the error alternatives yield nil (error-yields-nil) and the statement-list actions append a possibly-nil statement only under a nil test (nil-in-list), so the statements already on the stack survive unchanged; on every path of every action each token and node is placed at most once and in source order (linear, order) and the printer emits each slot once (C15), so a tree returned despite errors prints only source tokens, each at most once, in order.", 1)
		p.Technique += "; abstract interpretation of grammar actions (nil discipline, linearity)"
		p.TrustedBase = yyTrusted
		p.Floors = append(p.Floors, report.Floor{Rule: "error-yields-nil", What: "error-actions", Min: 4}, report.Floor{Rule: "nil-in-list", What: "appends", Min: 4}, report.Floor{Rule: "linear", What: "productions", Min: 1014})
		p.Run = func(c *Ctx) {
			run(c)
			defer c.cleanup()
			c.flows_("error-yields-nil", "nil-in-list", "linear", "order")
		}
	}
	// C12: no node object reachable along two paths; declaration order = source order
	{
		p := properties["C12"]
		run := p.Run
		p.LevelNote = "Trusts go/types resolution, goyacc as reference generator and the analysers (validated on ok/bad fixtures every run)."
		p.Explanation += " linear/order on both grammars decide the two clauses that depend on the parser: no object is placed twice by any action, and field (= traversal) order is source order."
		p.TrustedBase = yyTrusted
		p.Floors = append(p.Floors, report.Floor{Rule: "linear", What: "productions", Min: 1014}, report.Floor{Rule: "order", What: "objects", Min: 900})
		p.Run = func(c *Ctx) {
			run(c)
			defer c.cleanup()
			c.grammarRule("tables-sync", syncRule)
			c.flows_("linear", "order")
		}
	}
}
