package main

import (
	"verif/internal/kinds"
	"verif/internal/load"
	"verif/internal/small"
	"verif/internal/report"
	"verif/internal/visitors"
)

// Rules added to several properties after all of them are registered (this file's init runs last).
func init() {
	addIdxSafe("C01", "sites", 140, "pkg/parser", "internal/php5", "internal/php7", "internal/position", "pkg/position", "pkg/token", "pkg/errors", "pkg/version", "pkg/conf")
	addIdxSafe("C05", "sites", 2, "internal/position")
	addIdxSafe("C09", "sites", 2, "pkg/version", "pkg/parser")
	addIdxSafe("C11", "functions", 5, "cmd/php-parser") // no index expression there today: any that appears must be proved
	addIdxSafe("C12", "functions", 300, "pkg/visitor/traverser", "pkg/visitor") // likewise
	addIdxSafe("C14", "sites", 3, "pkg/visitor/nsresolver")
	addIdxSafe("C15", "sites", 3, "pkg/visitor/printer")
	addIdxSafe("C16", "sites", 140, "pkg/visitor/dumper", "pkg/token")
	addIdxSafe("C17", "sites", 12, "pkg/visitor/formatter")
}

// Clauses a property depends on although they are anchored in another property's code
// (each addition was prompted by a seeded change that only the other property's check reported).
func init() {
	extend := func(id, explain string, floors []report.Floor, more func(c *Ctx)) {
		p := properties[id]
		run := p.Run
		p.Explanation += " " + explain
		p.Floors = append(p.Floors, floors...)
		p.Run = func(c *Ctx) {
			run(c)
			more(c)
		}
	}
	// C14: a name is resolved only if the traverser reaches the node that holds it
	extend("C14", "traverse-slots/accept-dispatch: the resolver runs under the Traverser, so every name-bearing slot is resolved only if every Traverser method descends into every child slot (seed C14-6: a slot visited twice and another never).",
		[]report.Floor{{Rule: "traverse-slots", What: "methods", Min: 155}},
		func(c *Ctx) {
			c.visitorRule("traverse-slots", visitors.TraverseSlots)
			c.visitorRule("accept-dispatch", visitors.AcceptDispatch)
		})
	// C12: parser-private wrapper objects must not stay in the tree (their Accept is a no-op: the subtree is never visited)
	extend("C12", "no-carrier-escape: no parser-private carrier object (ParserBrackets, ParserSeparatedList, …), whose Accept does nothing, is left in a child slot of an ast node (seed C12-5).",
		[]report.Floor{{Rule: "no-carrier-escape", What: "productions", Min: 1000}},
		func(c *Ctx) {
			defer c.cleanup()
			c.flows_("no-carrier-escape")
		})
	// C05: the line fields of node positions are copied from token positions, which setTokenPosition fills
	extend("C05", "scanner-helpers: the line fields of a node's position are those of its boundary tokens, which setTokenPosition computes from ts and te-1 (seed C05-6).",
		[]report.Floor{{Rule: "scanner-helpers", What: "facts", Min: 12}},
		func(c *Ctx) { c.ssaScan("scanner-helpers") })
}

// token-ids-agree: C03 (the tree PHP prescribes needs the parser to see the token the scanner meant) and C10.
func init() {
	run := func(c *Ctx) {
		c.Fixture("mini", "token-ids-agree", false, func(p *load.Program, tb *kinds.Table) *report.RuleResult {
			r := small.TokenIDsAgree(p, "pkg/gtok", "ID", "internal/yok")
			r.Merge(small.TokenIDsAgree(p, "pkg/badgtok", "ID", "internal/yok"), "bad:")
			return r
		})
		if p, _, ok := c.RepoProgram(false); ok {
			c.Add(small.TokenIDsAgree(p, "pkg/token", "ID", "internal/php5", "internal/php7"))
		}
	}
	for _, id := range []string{"C03", "C10"} {
		p := properties[id]
		old := p.Run
		p.Explanation += " token-ids-agree: every T_ constant of the generated parsers has the value of the constant of the same name in pkg/token (the scanner returns int(token.ID), the parser compares it with its own numbering)."
		p.Floors = append(p.Floors, report.Floor{Rule: "token-ids-agree", What: "tokens", Min: 260})
		p.Run = func(c *Ctx) {
			old(c)
			run(c)
		}
	}
}
