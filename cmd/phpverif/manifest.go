package main

import (
	"encoding/json"
	"fmt"
	"os"
	"sort"
)

// notApplicable lists properties without a check and the reason.
var notApplicable = map[string]string{}

func writeManifest() {
	type lvl struct {
		Category  string `json:"category"`
		Text      string `json:"text"`
		DesignRef string `json:"design_ref"`
	}
	type chk struct {
		PropertyID  string `json:"property_id"`
		QuickCmd    string `json:"quick_cmd"`
		ThoroughCmd string `json:"thorough_cmd"`
		Evidence    string `json:"evidence_file"`
		Replay      string `json:"replay_cmd_template"`
		Engine      string `json:"engine"`
		Level       lvl    `json:"level_claimed"`
		LevelNote   string `json:"level_note"`
		Technique   string `json:"technique"`
	}
	var ids []string
	for id := range properties {
		if len(id) == 3 && id[0] == 'C' {
			ids = append(ids, id)
		}
	}
	sort.Strings(ids)
	var checks []chk
	for _, id := range ids {
		p := properties[id]
		checks = append(checks, chk{
			PropertyID: id, QuickCmd: "./check " + id + " quick", ThoroughCmd: "./check " + id + " thorough",
			Evidence: "/verif/evidence/" + id + ".json", Replay: "./check " + id + " thorough   # static: re-running reproduces the report in {path}",
			Engine: p.Engine, Level: lvl{p.Level, p.LevelText, "DESIGN.md §3 " + id}, LevelNote: p.LevelNote, Technique: p.Technique,
		})
	}
	type na struct {
		PropertyID string `json:"property_id"`
		Reason     string `json:"reason"`
	}
	nas := []na{}
	var naIDs []string
	for id := range notApplicable {
		if properties[id] == nil {
			naIDs = append(naIDs, id)
		}
	}
	sort.Strings(naIDs)
	for _, id := range naIDs {
		nas = append(nas, na{id, notApplicable[id]})
	}
	m := map[string]interface{}{
		"version":   1,
		"setup_cmd": "cd /verif && export GOFLAGS=-mod=mod GOPROXY=off GOSUMDB=off GOTOOLCHAIN=local GOWORK=off && mkdir -p bin && go build -o bin/phpverif ./cmd/phpverif && go build -o bin/goyacc golang.org/x/tools/cmd/goyacc",
		"hooks": map[string]interface{}{
			"guard":            "verif",
			"enable":           "none needed: static analysis reads the sources; no hook commits exist",
			"baseline_off_cmd": "cd /repo && GOFLAGS=-mod=mod go test -vet=off -count=1 ./...",
			"source_commits":   []string{},
			"add_only":         true,
		},
		"engines": []map[string]interface{}{
			{"name": "visitors", "path": "internal/visitors", "kind_free_text": "engine C: slot-event extraction over the sibling ast.Visitor implementations (typed AST + structured path enumeration)"},
			{"name": "effects", "path": "internal/effects", "kind_free_text": "engine D: go/ssa store/effect/provenance analyses over the whole module incl. generated code"},
			{"name": "yacc", "path": "internal/yacc", "kind_free_text": "engine A: goyacc grammar reader, table sync, LALR-state rules, abstract interpretation of semantic actions"},
			{"name": "scandfa", "path": "internal/scandfa", "kind_free_text": "engine B: transition system rebuilt from the ragel-generated scanner.go"},
			{"name": "small", "path": "internal/small", "kind_free_text": "engine E: small abstract interpreters (pool typestate, order domain, builder ends)"},
		},
		"checks":         checks,
		"not_applicable": nas,
		"notes":          "Technique family: static analysis only. Every check type-checks /repo's working tree afresh and decides obligations keyed by rule+construct; undecided fails. Known genuine defects are in known_findings.json.",
	}
	b, _ := json.MarshalIndent(m, "", " ")
	fmt.Fprintln(os.Stdout, string(b))
}
