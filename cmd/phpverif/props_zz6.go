package main

import (
	"verif/internal/report"
	"verif/internal/visitors"
)

// Rules that changed their method late in the fifth session (DESIGN.md §12): the text the manifest and the
// evidence carry.
func init() {
	none := func(c *Ctx) {}
	extendProp("C14", "resolve-spec: NewNamespace, AddAlias and ResolveName are evaluated from their source (package ceval, nothing is compiled or run) on 648 scenarios - two namespaces, imports of the three kinds (the keyword also spelt CONST, Const, Function, FUNCTION), one alias name present in all three tables, 108 names: every special name in three spellings, near-misses, aliases in their own and other spellings, unknown, qualified, relative and fully qualified names - under the alias kinds \"\", function and const, against PHP's resolution rule written out in the checker; ResolveType is evaluated on a name of each kind, on nullable types one and two levels deep and on a non-name. What special-names / alias-key-agreement leave undecided because they do not recognise the shape of the code is decided by a clean evaluation; a violation they can name stands. The evaluation decides the functions on this family, not on all strings.",
		nil, none) // no floor: when the evaluation is outside its vocabulary the structural rules decide alone
	const pe = "pool by evaluation: besides the typestate proof of Get in its two exact forms (all block sizes, all request counts), the constructor and Get are evaluated from source for block sizes 1-8, 16 and every constant a constructor call passes (1024), 2*size+3 requests each: every result is a zeroed element no earlier request returned. What the proof leaves undecided, or refutes only because Get is in neither form it reads, is decided by a clean evaluation - a bounded statement (these sizes and counts), marked as such in the obligation."
	for _, id := range []string{"C18", "C01", "C02", "C04", "C05", "C08", "C10"} {
		if p := properties[id]; p != nil {
			has := false
			for _, f := range p.Floors {
				if f.Rule == "pool-typestate" {
					has = true
				}
			}
			if has || id == "C18" {
				extendProp(id, pe, nil, none) // no floor: the proof alone decides a pool it can read
			}
		}
	}
	extendProp("C14", "linear (see C02): a name the grammar parsed must be in the tree to be resolved - a production that takes a carrier apart and does not place one of its fields loses that name (round 7 seed C14-20: `Hello::say as print` built without the Trait of its method reference, in one of four sibling productions). name-sinks/guard: in a resolver method the resolution of the name in a slot is skipped only by a test of that slot itself - an early return or an enclosing test on another slot leaves exactly the nodes that lack the other slot unresolved (round 7 seed C14-21: `if n.Name == nil { return }` ahead of the resolution of Extends and Implements: anonymous classes).",
		[]report.Floor{{Rule: "linear", What: "productions", Min: 1000}},
		func(c *Ctx) { defer c.cleanup(); c.flows_("linear") })
	extendProp("C17", "fmt-token-text: no function of the formatter stores into the Value, ID or Position of a token that came with the tree (reached through the node a method is given); only a token the formatter keeps in a field of its own (the last semicolon it made) is edited. A kept token is kept because its text is the node's value: re-spelling it prints a program whose re-parse has other values (round 9 seed C17-19: `__line__` upper-cased in the token, `Value` left alone).",
		[]report.Floor{{Rule: "fmt-token-text", What: "stores", Min: 1}, {Rule: "fmt-token-text", What: "functions", Min: 150}},
		func(c *Ctx) {
			if p, _, ok := c.RepoProgram(false); ok {
				c.Add(visitors.FmtTokenText(p, "pkg/visitor/formatter"))
			}
		})
	for _, id := range []string{"C09", "C03", "C08"} {
		extendProp(id, "order-domain/New: version.New is evaluated from source on 34 strings around `<number>.<number>` (signs, blanks, hex, underscores, overflow, missing and extra parts) against the rule \"exactly one dot separates two base-10 numbers that fit 64 bits\"; the provenance of the two fields (ParseUint of segment 0 and 1) is read only when the function cannot be evaluated.", nil, none)
	}
}
