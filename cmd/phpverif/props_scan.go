package main

import (
	"strings"
	"verif/internal/effects"
	"verif/internal/kinds"
	"verif/internal/load"
	"verif/internal/report"
	"verif/internal/scandfa"
)

// scanOf rebuilds the transition system of the scanner package rel in the tree dir (cached).
func (c *Ctx) scanOf(dir, rel string) *scandfa.Analysis {
	if c.scans == nil {
		c.scans = map[string]*scandfa.Analysis{}
	}
	key := dir + "|" + rel
	if a, ok := c.scans[key]; ok {
		return a
	}
	c.scans[key] = nil
	p, err := c.Program(dir, false)
	if err != nil {
		c.Fail("scanner", "load", "load: "+err.Error())
		return nil
	}
	m, err := scandfa.Build(p, rel)
	if err != nil {
		c.Fail("scanner", "machine:"+rel, "scanner: "+err.Error())
		return nil
	}
	a := scandfa.Analyse(m)
	c.scans[key] = a
	return a
}

func (c *Ctx) scan(dir string) *scandfa.Analysis { return c.scanOf(dir, envOr("VERIF_SCANREL", "internal/scanner")) }

// graphOracle is set by scanRun from the verification directory of the run
var graphOracle = "/verif/testdata/oracle/machine_graph.json"

type scanRule func(a *scandfa.Analysis) []*report.RuleResult

var scanRules = map[string]scanRule{
	"token-rules": func(a *scandfa.Analysis) []*report.RuleResult {
		pp, ff, rs, nd := a.TokenRules()
		return []*report.RuleResult{pp, ff, rs, nd}
	},
	"newline-action":   func(a *scandfa.Analysis) []*report.RuleResult { return []*report.RuleResult{a.NewlineAction()} },
	"newline-siblings": func(a *scandfa.Analysis) []*report.RuleResult { return []*report.RuleResult{a.NewlineSiblings()} },
	"case-fold":        func(a *scandfa.Analysis) []*report.RuleResult { return []*report.RuleResult{a.CaseFold("php")} },
	"trivia-stay":      func(a *scandfa.Analysis) []*report.RuleResult { return []*report.RuleResult{a.TriviaStay()} },
	"trivia-siblings":  func(a *scandfa.Analysis) []*report.RuleResult { return []*report.RuleResult{a.TriviaSiblings()} },
	"newline-symmetry": func(a *scandfa.Analysis) []*report.RuleResult { return []*report.RuleResult{a.NewlineSymmetry()} },
	"idx-guard":        func(a *scandfa.Analysis) []*report.RuleResult { return []*report.RuleResult{a.IdxGuard()} },
	// stack-live: the part of idx-guard about reads of the scanner's call stack (a view, so that C07 can claim it alone)
	"stack-live": func(a *scandfa.Analysis) []*report.RuleResult {
		all := a.IdxGuard()
		r := report.NewResult("stack-live")
		for _, ob := range all.Obls {
			if strings.HasPrefix(ob.Key, "idx-guard/stack-live/") || strings.HasPrefix(ob.Key, "idx-guard/bad:stack-live/") || strings.HasPrefix(ob.Key, "idx-guard/stack-invariant/") {
				ob.Rule = "stack-live"
				ob.Key = "stack-live/" + strings.TrimPrefix(strings.TrimPrefix(ob.Key, "idx-guard/"), "stack-live/")
				r.Obls = append(r.Obls, ob)
				r.Count("obligations", 1)
			}
		}
		return []*report.RuleResult{r}
	},
	"mark-flow": func(a *scandfa.Analysis) []*report.RuleResult { r, _ := a.MarkFlow(); return []*report.RuleResult{r} },
	"newline-neutral": func(a *scandfa.Analysis) []*report.RuleResult { return []*report.RuleResult{a.NewlineNeutral()} },
	"token-bounds": func(a *scandfa.Analysis) []*report.RuleResult { return []*report.RuleResult{a.TokenBounds()} },
	"heredoc-spec": func(a *scandfa.Analysis) []*report.RuleResult { return []*report.RuleResult{a.HeredocSpec()} },
	"no-rescan":        func(a *scandfa.Analysis) []*report.RuleResult { return []*report.RuleResult{a.NoRescan()} },
	"eof-final":        func(a *scandfa.Analysis) []*report.RuleResult { return []*report.RuleResult{a.EofFinal()} },
	"num-classify":     func(a *scandfa.Analysis) []*report.RuleResult { return []*report.RuleResult{a.NumClassify()} },
	"pred-spec":        func(a *scandfa.Analysis) []*report.RuleResult { return []*report.RuleResult{a.PredSpec()} },
	"lexeme-of": func(a *scandfa.Analysis) []*report.RuleResult {
		l, k := a.LexemeOf(false)
		return []*report.RuleResult{l, k}
	},
	"comment-kind":     func(a *scandfa.Analysis) []*report.RuleResult { return []*report.RuleResult{a.CommentKind()} },
	"byte-siblings":    func(a *scandfa.Analysis) []*report.RuleResult { return []*report.RuleResult{a.ByteSiblings()} },
	"crlf-unit":        func(a *scandfa.Analysis) []*report.RuleResult { return []*report.RuleResult{a.CrlfUnit()} },
	"machine-graph": func(a *scandfa.Analysis) []*report.RuleResult {
		return []*report.RuleResult{a.MachineGraph(graphOracle)}
	},
	"unget-spec":       func(a *scandfa.Analysis) []*report.RuleResult { return []*report.RuleResult{a.UngetSpec()} },
	"num-spec":         func(a *scandfa.Analysis) []*report.RuleResult { return []*report.RuleResult{a.NumSpec()} },
	"progress":         func(a *scandfa.Analysis) []*report.RuleResult { return []*report.RuleResult{a.Progress()} },
}

// scanRun runs scanner rule groups on the scanok/scanbad fixtures and on /repo.
func (c *Ctx) scanRun(groups ...string) {
	graphOracle = c.Verif + "/testdata/oracle/machine_graph.json"
	if !c.NoFixtures {
		dir := c.Verif + "/testdata/fixture/mini"
		ok, bad := c.scanOf(dir, "internal/scanok"), c.scanOf(dir, "internal/scanbad")
		if ok == nil || bad == nil {
			c.Run.FixtureFails = append(c.Run.FixtureFails, "mini: scanner fixtures could not be analysed")
		} else {
			for _, g := range groups {
				if g == "heredoc-spec" {
					// the scanner fixtures have no heredoc machine: the rule's evaluator and specification are exercised on
					// two small packages with the predicates alone
					c.Fixture("mini", "heredoc-spec", false, func(p *load.Program, tb *kinds.Table) *report.RuleResult {
						r := scandfa.HeredocSpecMethods(p, "internal/hdok")
						r.Merge(scandfa.HeredocSpecMethods(p, "internal/hdbad"), "bad:")
						return r
					})
					continue
				}
				if g == "machine-graph" {
					// the miniature scanner has its own (two-machine) graph
					fo := dir + "/machine_graph.json"
					good := ok.MachineGraph(fo)
					good.Merge(bad.MachineGraph(fo), "bad:")
					c.compareFixture("mini", good.Rule, dir, good)
					continue
				}
				if g == "lexeme-of" {
					// the miniature scanner has its own lexemes; it has no heredoc opener, so heredoc-kind (decided by the same
					// product) has no fixture: its positive examples are the recorded seeds C08-8 and C08-10
					good, _ := ok.LexemeOf(true)
					broken, _ := bad.LexemeOf(true)
					good.Merge(broken, "bad:")
					c.compareFixture("mini", good.Rule, dir, good)
					continue
				}
				good, broken := scanRules[g](ok), scanRules[g](bad)
				for i := range good {
					good[i].Merge(broken[i], "bad:")
					c.compareFixture("mini", good[i].Rule, dir, good[i])
				}
			}
		}
	}
	a := c.scan(c.Repo)
	if a == nil {
		return
	}
	for _, g := range groups {
		for _, r := range scanRules[g](a) {
			c.Add(r)
		}
	}
}

// ssaScan runs the SSA-based scanner rules.
func (c *Ctx) ssaScan(rules ...string) {
	for _, r := range rules {
		switch r {
		case "pred-pure":
			c.Fixture("mini", "pred-pure", true, func(p *load.Program, tb *kinds.Table) *report.RuleResult {
				w, _ := effects.NewWorld(p)
				res := effects.PredPure(w, "internal/scanok")
				res.Merge(effects.PredPure(w, "internal/scanbad"), "bad:")
				return res
			})
		case "buf-readonly":
			c.Fixture("mini", "buf-readonly", true, func(p *load.Program, tb *kinds.Table) *report.RuleResult {
				w, _ := effects.NewWorld(p)
				return effects.BufReadonly(w, "internal/scanner", "internal/badcb", "internal/scanok")
			})
		}
	}
	p, _, ok := c.RepoProgram(true)
	if !ok {
		return
	}
	w := c.world(p, "scanner-helpers")
	if w == nil {
		return
	}
	for _, r := range rules {
		switch r {
		case "pred-pure":
			c.Add(effects.PredPure(w, "internal/scanner"))
		case "buf-readonly":
			c.Add(effects.BufReadonly(w, parsingPkgs...))
		case "scanner-helpers":
			c.Add(effects.ScannerHelpers(w, "internal/scanner"))
		case "cb-guard":
			c.Add(effects.CbGuard(w))
		}
	}
}

func init() {
	properties["SC"] = &Property{ // development aid: every scanner rule at once (not registered in the manifest)
		Level: "other", Engine: "scandfa",
		Run: func(c *Ctx) {
			c.scanRun("token-rules", "newline-action", "newline-siblings", "newline-symmetry", "case-fold", "trivia-stay", "trivia-siblings", "idx-guard", "token-bounds", "mark-flow", "newline-neutral", "progress", "eof-final", "no-rescan", "num-classify", "pred-spec", "heredoc-spec")
			c.ssaScan("pred-pure", "buf-readonly", "scanner-helpers")
		},
	}
}

var scanTrusted = append([]string{"the reconstruction of the scanner's transition system from scanner.go in internal/scandfa (blocks, decision evaluator, symbolic action interpreter); any statement outside its vocabulary is undecided and fails"}, baseTrusted...)

func init() {
	delete(notApplicable, "C04")
	properties["C04"] = &Property{
		Level:     "other",
		LevelText: "The compiled scanner is rebuilt as a transition system (531 states x 256 bytes with three-valued evaluation of the condition predicates; every action block interpreted symbolically over the cursor variables p, ts, te; a dataflow over the block graph bounds p-ts and te-ts) and the structural clauses of the property are decided on it for every state and every action: (pos-pairing) every returned token has its position recorded from the same [ts,te) its text is taken from; (ff-span) every free-floating token takes value and position from the same bytes; (resume-at-te) scanning always resumes exactly where the previous token or free-floating token ended, so tokens neither overlap nor leave gaps; (no-drop) every consumed byte range is returned, recorded as free-floating, or reported as an error; (newline-action) every transition that consumes LF or CR runs the action that records the line start; (scanner-helpers) setTokenPosition / addFreeFloatingToken / NewLexer / the tail of Lex compute offsets, lines and values from exactly those variables; (pred-pure) transition conditions do not move the cursor; leaf nodes carry their own token's text (leaf-value) and pool objects are never handed out twice (pool-typestate). Not decided: the arithmetic of NewLines.GetLine (that the recorded line starts yield the true 1-based line for every terminator mix).",
		LevelNote: "pred-pure is violated by the flexible-heredoc end test (known finding).",
		Technique: "static analysis: transition-system reconstruction of the generated scanner, symbolic interpretation of action blocks, interval dataflow on cursor offsets; SSA provenance checks of the helper functions; abstract interpretation of grammar actions (leaf values); zone-domain typestate of the pools",
		Engine:    "scandfa",
		Explanation: "pos-pairing, ff-span, resume-at-te, no-drop, newline-action, trivia-stay on internal/scanner/scanner.go; scanner-helpers, pred-pure (SSA); leaf-value (both grammars); pool-typestate.",
		TrustedBase: scanTrusted,
		Floors: []report.Floor{
			{Rule: "pos-pairing", What: "token-blocks", Min: 110},
			{Rule: "ff-span", What: "ff-blocks", Min: 25},
			{Rule: "resume-at-te", What: "boundary-blocks", Min: 160},
			{Rule: "no-drop", What: "boundary-blocks", Min: 160},
			{Rule: "newline-action", What: "consuming-edges", Min: 150},
			{Rule: "scanner-helpers", What: "facts", Min: 12},
			{Rule: "pred-pure", What: "predicates", Min: 5},
			{Rule: "leaf-value", What: "leaves", Min: 190},
		},
		Run: func(c *Ctx) {
			defer c.cleanup()
			c.scanRun("token-rules", "newline-action", "trivia-stay")
			c.ssaScan("scanner-helpers", "pred-pure")
			c.flows_("leaf-value")
			c.poolRule()
		},
	}
	delete(notApplicable, "C08")
	properties["C08"] = &Property{
		Level:     "other",
		LevelText: "Decided on the reconstructed transition system of the scanner, for every state: LF and CR are both accepted or both end the token, blank and tab likewise, and wherever a blank continues a token a line terminator does too (newline-siblings; the two places where PHP itself allows blanks only - inside casts and after <<< - are a reviewed pattern); in the hand-written helper predicates and actions every byte compared with one line terminator is compared with the other in the same way, or as a CR LF pair (newline-symmetry); recording whitespace or a comment as free-floating never changes the scanner state (trivia-stay); every machine that skips whitespace also skips comments (trivia-siblings); no grammar action or parser function makes a decision that reads free-floating tokens or positions (grammar-ignores-trivia). Not decided: token-pair interactions where trivia is part of a longer token (`yield from`, `?>` swallowing one newline, `;` whitespace `?>`), for all programs.",
		LevelNote: "Four machines (property, halt_compiller_*) skip whitespace but not comments: known findings.",
		Technique: "static analysis: per-state sibling comparison of byte classes on the reconstructed scanner automaton; symbolic interpretation of action blocks; typed-AST scan of parser conditions",
		Engine:    "scandfa",
		Explanation: "newline-siblings, trivia-stay, trivia-siblings on the scanner; grammar-ignores-trivia on internal/php5 and internal/php7.",
		TrustedBase: scanTrusted,
		Floors: []report.Floor{
			{Rule: "newline-siblings", What: "states", Min: 500},
			{Rule: "newline-symmetry", What: "functions", Min: 4},
			{Rule: "trivia-stay", What: "trivia-blocks", Min: 15},
			{Rule: "trivia-siblings", What: "whitespace-skipping-machines", Min: 5},
			{Rule: "grammar-ignores-trivia", What: "conditions", Min: 100},
		},
		Run: func(c *Ctx) {
			defer c.cleanup()
			c.scanRun("newline-siblings", "newline-symmetry", "trivia-stay", "trivia-siblings")
			c.flowRule("grammar-ignores-trivia", flowRules["grammar-ignores-trivia"])
		},
	}
	delete(notApplicable, "C01")
	properties["C01"] = &Property{
		Level:     "other",
		LevelText: "Structural necessary conditions, each decided for all code it applies to: (buf-readonly) no instruction of the parsing packages writes an element of a byte slice that is not local storage, nor hands one to a callee outside the reviewed read-only set - this clause ('the caller's buffer is left unchanged') is decided completely; (cb-guard) every call of the optional error callback is dominated by a nil test; (idx-guard) every index or slice expression on the input buffer, the scanner's call stack and the line table in internal/scanner is implied in range by its dominating conditions plus the scanner invariants (0 <= ts <= te <= len, p < len inside Lex, the dataflow bounds on p-ts and te-ts), by a small linear prover; the call-stack invariant 0 <= top <= len(stack) is shown inductive over every write of the two fields and the post-condition of growCallStack (top < len(stack)) is proved from its body, not assumed; (progress) the graph of token steps that may consume nothing is acyclic, so the scanner advances by at least one byte per bounded number of steps and Lex returns at most len+1 tokens; (pred-pure) transition conditions do not move the cursor; (nil-in-list, linear) grammar actions cannot put nil into a list or index a possibly-empty list; (assert-safe) every single-value type assertion an action applies to a right-hand-side value is reached only on paths that have established that the value is non-nil and of the asserted type whenever the productions of that symbol can yield nil or another type; the parser driver is the stock goyacc driver, whose error recovery shifts `error`, discards a token or aborts (tables-sync/skeleton-sync). (no-rescan) a structural necessary condition of linear time: the code reached from Lex never takes the input or the line table as a whole, a prefix or a suffix of them, and a loop that moves an index over one of them starts at the cursor and has an exit that depends on the element. Not decided: the amortised time bound itself, Go stack depth on deeply nested input, memory.",
		LevelNote: "Known findings: two scanner stalls (html '<', heredoc '$$') and the cursor-moving heredoc predicate. Four index panics found by idx-guard were repaired in /repo (the last one: the new_line action's look-ahead after a CR at the end of the input, 81 generated copies).",
		Technique: "static analysis: SSA effect analysis (buffer writes, guard dominance), linear bound proving over dominating conditions, transition-system reconstruction of the scanner with interval dataflow and replay refinement for progress",
		Engine:    "scandfa",
		Explanation: "buf-readonly, cb-guard (SSA); idx-guard (with the call-stack invariant), progress on the reconstructed scanner; pred-pure; no-rescan; nil-in-list, assert-safe (grammar actions); tables-sync / skeleton-sync.",
		Assumptions: []string{"PHPMODE: transition predicates run in machines entered after an open tag, so lex.p >= 2 there (look-behind data[p-1], data[p-2])"},
		TrustedBase: scanTrusted,
		Floors: []report.Floor{
			{Rule: "buf-readonly", What: "functions", Min: 400},
			{Rule: "cb-guard", What: "calls", Min: 2},
			{Rule: "idx-guard", What: "sites", Min: 1200},
			{Rule: "progress", What: "token-steps", Min: 200},
			{Rule: "pred-pure", What: "predicates", Min: 5},
			{Rule: "tables-sync", What: "skeleton-funcs", Min: 16},
			{Rule: "assert-safe", What: "assertions", Min: 230},
			{Rule: "idx-guard", What: "stack-writes", Min: 10},
			{Rule: "no-rescan", What: "file-sized-fields", Min: 2},
			{Rule: "no-rescan", What: "per-token-functions", Min: 18},
			{Rule: "no-rescan", What: "loops", Min: 2},
			{Rule: "pool-typestate", What: "pools", Min: 2},
		},
		Run: func(c *Ctx) {
			defer c.cleanup()
			c.scanRun("idx-guard", "progress", "no-rescan")
			c.ssaScan("buf-readonly", "pred-pure", "cb-guard")
			c.Fixture("mini", "cb-guard", true, func(p *load.Program, tb *kinds.Table) *report.RuleResult {
				w, _ := effects.NewWorld(p)
				return effects.CbGuard(w)
			})
			c.grammarRule("tables-sync", syncRule)
			c.flows_("nil-in-list", "assert-safe")
			c.poolRule() // the pools' Get is excluded from idx-safe because this rule decides it exactly
		},
	}
}

func init() {
	// C06: the end of the input inside an unterminated construct is not accepted silently
	p := properties["C06"]
	run := p.Run
	p.Explanation += " eof-final (scanner transition system): an end-of-input action that accepts everything scanned so far as a token occurs only in ragel's final states (a complete pattern), and where some byte ends the token in that state the end of the input ends it through the same action; every other state falls back to the last complete match, so an unterminated comment, string or cast surfaces as an error token or a syntax error."
	p.Technique += "; end-of-input actions of the reconstructed scanner automaton"
	p.Floors = append(p.Floors, report.Floor{Rule: "eof-final", What: "eof-states", Min: 500}, report.Floor{Rule: "eof-final", What: "accepting", Min: 390}, report.Floor{Rule: "eof-final", What: "backtracking", Min: 100})
	p.Run = func(c *Ctx) {
		run(c)
		c.scanRun("eof-final")
	}
}
