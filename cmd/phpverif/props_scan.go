package main

import (
	"verif/internal/effects"
	"verif/internal/report"
	"verif/internal/scandfa"
)

// scan rebuilds the scanner's transition system for the tree in dir (cached).
func (c *Ctx) scan(dir string) *scandfa.Analysis {
	if c.scans == nil {
		c.scans = map[string]*scandfa.Analysis{}
	}
	if a, ok := c.scans[dir]; ok {
		return a
	}
	c.scans[dir] = nil
	p, err := c.Program(dir, false)
	if err != nil {
		c.Fail("scanner", "load", "load: "+err.Error())
		return nil
	}
	m, err := scandfa.Build(p, "internal/scanner")
	if err != nil {
		c.Fail("scanner", "machine", "scanner: "+err.Error())
		return nil
	}
	a := scandfa.Analyse(m)
	c.scans[dir] = a
	return a
}

func init() {
	properties["SC"] = &Property{ // development aid: every scanner rule at once (not registered in the manifest)
		Level: "other", Engine: "scandfa",
		Run: func(c *Ctx) {
			a := c.scan(c.Repo)
			if a == nil {
				return
			}
			pp, ff, rs, nd := a.TokenRules()
			for _, r := range []*report.RuleResult{pp, ff, rs, nd, a.NewlineAction(), a.NewlineSiblings(), a.CaseFold("php"), a.TriviaStay(), a.IdxGuard(), a.Progress()} {
				c.Add(r)
			}
			if p, _, ok := c.RepoProgram(true); ok {
				if w := c.world(p, "scanner-helpers"); w != nil {
					c.Add(effects.ScannerHelpers(w, "internal/scanner"))
					c.Add(effects.PredPure(w, "internal/scanner"))
					c.Add(effects.BufReadonly(w, parsingPkgs...))
				}
			}
		},
	}
}
