package main

import "verif/internal/report"

// Rules added in the fifth session (this file's init runs after props_zz4.go's).

func init() {
	properties["LX"] = &Property{ // development aid: the rules of this file alone
		Level: "other", Engine: "scandfa",
		Run: func(c *Ctx) { defer c.cleanup(); c.scanRun("lexeme-of", "comment-kind") },
	}
	const lx = "lexeme-of: for every action outcome of the generated scanner that returns a token or records a free-floating token with id X, every path of the automaton from the token start to that outcome spells a text in the language PHP gives X (`abstract` in any letter case for T_ABSTRACT, `<=>` for T_SPACESHIP, `(` blanks `int`|`integer` blanks `)` for T_INT_CAST, a label for T_STRING, blanks and line terminators for T_WHITESPACE, `#…`, `//…` or `/*…*/` for T_COMMENT, …: a table of 150 token ids). It is a language-inclusion check on the product of the reconstructed transition system with the deterministic automaton of the union of the specification languages (subset construction over regexp/syntax programs); a product node carries the specification state of the text consumed so far and of the text up to the recorded token end, the value of ragel's deferred-action selector `act`, and for every cursor mark the set of bytes that can stand before it, so that action conditions on `lex.act` and `lex.data[mark-1]` are charged only to the paths that can take them; the graph (about 280,000 nodes) is explored exhaustively, nothing is executed. Decides: no token id is returned for a text that is not one of its lexemes (two ids exchanged in one of 200 generated actions, a keyword action attached to another keyword's path, a free-floating kind on the wrong pattern). Does not decide the converse (that every lexeme is recognised: acceptance)."
	const hk = "heredoc-kind (the same product): the opener of a heredoc continues in the nowdoc machine exactly on the paths that consumed a single quote, and in the heredoc machine exactly on the others (seeds C08-8, C08-10: the action looked at the byte at ts+3, which is a blank in `<<< 'EOT'`)."
	const ck = "comment-kind: the action that records a block comment decides between comment and doc comment by a condition on the token's first bytes and length; its statements are evaluated from source (package ceval, nothing compiled or run) on every block comment with a body of up to three bytes over {star, slash, blank, letter, LF} and the kind recorded must be the repository's rule: a doc comment starts with `/**` and is longer than `/**/`."
	lxF := []report.Floor{{Rule: "lexeme-of", What: "token-ids", Min: 160}, {Rule: "lexeme-of", What: "product-nodes", Min: 100000}, {Rule: "heredoc-kind", What: "openers", Min: 1}}
	ckF := []report.Floor{{Rule: "comment-kind", What: "deciding-blocks", Min: 1}, {Rule: "comment-kind", What: "scenarios", Min: 140}}
	extendProp("C03", lx+" "+hk, lxF, func(c *Ctx) { defer c.cleanup(); c.scanRun("lexeme-of") })
	extendProp("C04", lx+" "+ck, append(append([]report.Floor{}, lxF[:2]...), ckF...), func(c *Ctx) { defer c.cleanup(); c.scanRun("lexeme-of", "comment-kind") })
	extendProp("C08", hk+" "+lx, lxF, func(c *Ctx) { defer c.cleanup(); c.scanRun("lexeme-of") })
	for _, id := range []string{"C03", "C04", "C08"} {
		properties[id].Technique += "; language inclusion on the product of the scanner's transition system with the automaton of PHP's lexemes per token id"
	}
}
