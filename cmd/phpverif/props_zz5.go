package main

import (
	"encoding/json"
	"os"
	"path/filepath"
	"sort"
	"strings"

	"verif/internal/effects"
	"verif/internal/kinds"
	"verif/internal/load"
	"verif/internal/report"
	"verif/internal/small"
	"verif/internal/visitors"
	"verif/internal/yacc"
)

// Rules added in the fifth session (this file's init runs after props_zz4.go's).

func (c *Ctx) nilablePos() {
	c.Fixture("mini", "nilable-pos", true, func(p *load.Program, tb *kinds.Table) *report.RuleResult {
		w, _ := effects.NewWorld(p)
		return effects.NilablePos(w, "internal/badpos", "internal/php7", "pkg/errors")
	})
	if p, _, ok := c.RepoProgram(true); ok {
		if w := c.world(p, "nilable-pos"); w != nil {
			c.Add(effects.NilablePos(w, "internal/php5", "internal/php7", "pkg/errors", "pkg/parser"))
		}
	}
}

func init() {
	properties["BR"] = &Property{Level: "other", Engine: "effects", Run: func(c *Ctx) {
		c.ssaRepo("cmd-buf-readonly", func(w *effects.World) *report.RuleResult {
			r := effects.BufReadonly(w, "cmd/php-parser")
			r.Rename("cmd-buf-readonly")
			return r
		})
	}}
	properties["NP"] = &Property{Level: "other", Engine: "effects", Run: func(c *Ctx) { c.nilablePos() }}
	properties["GR"] = &Property{ // development aid: grammar-structure rules
		Level: "other", Engine: "yacc",
		Run: func(c *Ctx) { defer c.cleanup(); c.grammarRule("prec-oracle", yacc.PrecOracle) },
	}
	properties["YX"] = &Property{ // development aid: grammar-action rules by name
		Level: "other", Engine: "yyflow",
		Run: func(c *Ctx) { defer c.cleanup(); c.flows_(strings.Split(envOr("VERIF_RULES", "int-parse-decimal"), ",")...) },
	}
	properties["LX"] = &Property{ // development aid: the rules of this file alone
		Level: "other", Engine: "scandfa",
		Run: func(c *Ctx) { defer c.cleanup(); c.scanRun(strings.Split(envOr("VERIF_RULES", "lexeme-of,comment-kind"), ",")...) },
	}
	const lx = "lexeme-of: for every action outcome of the generated scanner that returns a token or records a free-floating token with id X, every path of the automaton from the token start to that outcome spells a text in the language PHP gives X (`abstract` in any letter case for T_ABSTRACT, `<=>` for T_SPACESHIP, `(` blanks `int`|`integer` blanks `)` for T_INT_CAST, a label for T_STRING, blanks and line terminators for T_WHITESPACE, `#…`, `//…` or `/*…*/` for T_COMMENT, …: a table of 150 token ids). It is a language-inclusion check on the product of the reconstructed transition system with the deterministic automaton of the union of the specification languages (subset construction over regexp/syntax programs); a product node carries the specification state of the text consumed so far and of the text up to the recorded token end, the value of ragel's deferred-action selector `act`, and for every cursor mark the set of bytes that can stand before it, so that action conditions on `lex.act` and `lex.data[mark-1]` are charged only to the paths that can take them; the graph (about 280,000 nodes) is explored exhaustively, nothing is executed. Decides: no token id is returned for a text that is not one of its lexemes (two ids exchanged in one of 200 generated actions, a keyword action attached to another keyword's path, a free-floating kind on the wrong pattern). Does not decide the converse (that every lexeme is recognised: acceptance)."
	const hk = "heredoc-kind (the same product): the opener of a heredoc continues in the nowdoc machine exactly on the paths that consumed a single quote, and in the heredoc machine exactly on the others (seeds C08-8, C08-10: the action looked at the byte at ts+3, which is a blank in `<<< 'EOT'`)."
	const ck = "comment-kind: the action that records a block comment decides between comment and doc comment by a condition on the token's first bytes and length; its statements are evaluated from source (package ceval, nothing compiled or run) on every block comment with a body of up to three bytes over {star, slash, blank, letter, LF} and the kind recorded must be the repository's rule: a doc comment starts with `/**` and is longer than `/**/`."
	lxF := []report.Floor{{Rule: "lexeme-of", What: "token-ids", Min: 160}, {Rule: "lexeme-of", What: "product-nodes", Min: 100000}, {Rule: "heredoc-kind", What: "openers", Min: 1}}
	ckF := []report.Floor{{Rule: "comment-kind", What: "deciding-blocks", Min: 1}, {Rule: "comment-kind", What: "scenarios", Min: 140}}
	extendProp("C03", lx+" "+hk, lxF, func(c *Ctx) { defer c.cleanup(); c.scanRun("lexeme-of") })
	extendProp("C04", lx+" "+ck, append(append([]report.Floor{}, lxF[:2]...), ckF...), func(c *Ctx) { defer c.cleanup(); c.scanRun("lexeme-of", "comment-kind") })
	extendProp("C08", hk+" "+lx, lxF, func(c *Ctx) { defer c.cleanup(); c.scanRun("lexeme-of") })
	const ipd = "int-parse-decimal: every integer-parsing call of strconv in a grammar action - the parse that tells the integer offset of `\"$a[12]\"` from the string offsets of `\"$a[0x1A]\"`, `\"$a[0b11]\"`, `\"$a[1_000]\"` - is a decimal parse into the platform's integer (Atoi, or ParseInt/ParseUint with the constants 10 and 0/64), in both grammars (seeds C03-13, C10-15: ParseInt with base 0)."
	ipdF := []report.Floor{{Rule: "int-parse-decimal", What: "parses", Min: 3}}
	for _, id := range []string{"C03", "C10"} {
		extendProp(id, ipd, ipdF, func(c *Ctx) { defer c.cleanup(); c.flows_("int-parse-decimal") })
	}
	const od = "order-domain: the comparison methods of pkg/version (Compare, Less, LessOrEqual, Greater, GreaterOrEqual, InRange) are the numeric lexicographic order on (major, minor) - evaluated over every ordering of small values - so the scanner's only version test, `>= 7.3` for the flexible heredoc terminator, holds under 7.3 itself (seed C03-15: GreaterOrEqual implemented as Compare > 0; the dispatcher and the scanner were untouched)."
	odF := []report.Floor{{Rule: "order-domain", What: "evaluations", Min: 1000}}
	for _, id := range []string{"C03", "C08"} {
		extendProp(id, od, odF, func(c *Ctx) {
			c.Fixture("mini", "order-domain", true, func(p *load.Program, tb *kinds.Table) *report.RuleResult {
				r := small.OrderDomainIn(p, "pkg/version")
				r.Merge(small.OrderDomainIn(p, "pkg/badversion"), "bad:")
				return r
			})
			if p, _, ok := c.RepoProgram(true); ok {
				c.Add(small.OrderDomain(p))
			}
		})
	}
	const np = "nilable-pos: the position of the parser's current token is nil when that token is the end of the input, and so is the Pos of an error reported there; in the parser wrappers and pkg/errors such a pointer is only copied, handed on or compared, and dereferenced only under a dominating nil test of the same expression (SSA; seed C07-14: `pos := *p.currentToken.Position` panics on a statement cut off by the end of the file, the one error every truncated input has)."
	npF := []report.Floor{{Rule: "nilable-pos", What: "loads", Min: 3}, {Rule: "nilable-pos", What: "dereferences", Min: 1}}
	for _, id := range []string{"C01", "C06", "C07"} {
		extendProp(id, np, npF, func(c *Ctx) { c.nilablePos() })
	}
	const bs = "byte-siblings: in every state of every machine of the scanner all bytes 0x80-0xFF take the same transitions, and so do the control bytes that are not whitespace and the digits 2-9 - PHP's lexical grammar never tells two bytes of one of these classes apart, so an off-by-one in a range test of the generated code, which separates a boundary byte (0xFF, 0x80, 0x7F, '9') from its class, shows as a state that treats siblings differently (seed C08-15: `_widec < 767` ended a `//` comment in front of the first 0xFF byte)."
	const cu = "crlf-unit: wherever a state consumes LF and CR inside one token, the LF that follows the CR is consumed too and leads to a state that behaves like the one a lone LF leads to (same transitions on all 256 bytes and at the end of the input): CR LF is one terminator (seed C08-13: after `; ?>` CR the LF of the pair became inline HTML)."
	bsF := []report.Floor{{Rule: "byte-siblings", What: "states", Min: 500}, {Rule: "crlf-unit", What: "states", Min: 60}}
	for _, id := range []string{"C08", "C03"} {
		extendProp(id, bs+" "+cu, bsF, func(c *Ctx) { defer c.cleanup(); c.scanRun("byte-siblings", "crlf-unit") })
	}
	extendProp("C09", "globals-assigned: in the command every package-level variable that some function reads is written somewhere in the package (a store, or its address handed to a function such as flag.StringVar) - a variable that is read but never written is the zero value for ever (seed C09-13: `phpVersion, err := version.New(phpVer)` declared a local; the workers read the package-level nil and every file was parsed as 7.4 whatever -phpver said).",
		[]report.Floor{{Rule: "globals-assigned", What: "variables", Min: 8}},
		func(c *Ctx) {
			c.Fixture("mini", "globals-assigned", true, func(p *load.Program, tb *kinds.Table) *report.RuleResult {
				w, _ := effects.NewWorld(p)
				r := effects.GlobalsAssigned(w, "cmd/goodcli")
				r.Merge(effects.GlobalsAssigned(w, "cmd/badcli"), "bad:")
				return r
			})
			c.ssaRepo("globals-assigned", func(w *effects.World) *report.RuleResult { return effects.GlobalsAssigned(w, "cmd/php-parser") })
		})
	const brc = "cmd-buf-readonly (buf-readonly on the command): what cmd/php-parser prints, dumps or writes back goes into storage made for that purpose - no byte slice that is not local storage (the file's content, which every token value of the tree aliases) is handed to bytes.NewBuffer or any other callee that may write it (seed C13-15: `bytes.NewBuffer(res.content[:0])` as the -pb output buffer; as soon as the printer inserts a blank, printing overwrites source bytes of tokens it has not printed yet)."
	for _, id := range []string{"C13", "C02", "C11"} {
		extendProp(id, brc, []report.Floor{{Rule: "cmd-buf-readonly", What: "functions", Min: 40}},
			func(c *Ctx) {
				c.ssaRepo("cmd-buf-readonly", func(w *effects.World) *report.RuleResult {
					r := effects.BufReadonly(w, "cmd/php-parser")
					r.Rename("cmd-buf-readonly")
					return r
				})
			})
	}
	extendProp("C01", "no-global-writes on the packages that own or use the pools: every lexer has its own token and position pool; a pool kept in a package-level variable is shared by all parses of the process, so two parses running at the same time corrupt each other's tokens and index past the block (seed C01-15).",
		[]report.Floor{{Rule: "no-global-writes", What: "functions", Min: 20}},
		func(c *Ctx) {
			c.ssaRepo("no-global-writes", func(w *effects.World) *report.RuleResult {
				return effects.NoGlobalWrites(w, "internal/scanner", "internal/position", "pkg/token", "pkg/position")
			})
		})
	extendProp("C17", "empty-list-literal: the printer tells an absent list from a present one by nil-ness, the formatter by length; they agree because the grammars never put an empty non-nil list into a node or carrier - the only empty list literals in the actions are the values of empty list productions (seed C17-13: the placeholder of `new class {` without parentheses got `Arguments: []ast.Vertex{}`; printed `new class() {}`, which parses into another tree, and formatting it again changes the text back).",
		[]report.Floor{{Rule: "empty-list-literal", What: "literals", Min: 10}},
		func(c *Ctx) { defer c.cleanup(); c.flows_("empty-list-literal") })
	extendProp("C11", "single-consumer: in the command the goroutine that receives the parsed files from a channel and prints, dumps or resolves them (found by what it does) is started exactly once and not in a loop - several of them write to the one standard output at the same time and the dumps of different files interleave (round 6 seed: one printer goroutine per CPU).",
		[]report.Floor{{Rule: "single-consumer", What: "consumers", Min: 1}},
		func(c *Ctx) {
			c.Fixture("mini", "single-consumer", true, func(p *load.Program, tb *kinds.Table) *report.RuleResult {
				w, _ := effects.NewWorld(p)
				r := effects.SingleConsumer(w, "cmd/goodcli")
				r.Merge(effects.SingleConsumer(w, "cmd/badcli"), "bad:")
				return r
			})
			c.ssaRepo("single-consumer", func(w *effects.World) *report.RuleResult { return effects.SingleConsumer(w, "cmd/php-parser") })
		})
	const mg = "machine-graph: the edges between the machines of the scanner - machine --token, free-floating kind or nothing--> next machine, call or return, computed from every action outcome - equal the reviewed table testdata/oracle/machine_graph.json (172 edges: after `->` the property machine, after `__halt_compiler` the three machines that expect `(` `)` `;`, a byte a machine has no rule for is given back to the php machine, …). An `fnext` that names another machine in one of the 200 generated actions changes the set (round 6: the fallback of `__halt_compiler()` not followed by `;` continued in the machine that swallows the rest of the file, so every statement after it was lost)."
	mgF := []report.Floor{{Rule: "machine-graph", What: "edges", Min: 150}}
	for _, id := range []string{"C07", "C03", "C02"} {
		extendProp(id, mg, mgF, func(c *Ctx) { defer c.cleanup(); c.scanRun("machine-graph") })
	}
	const fsp = "fold-span: in the loops of the PHP 5 grammar that fold a list of links (`->b`, `[0]`, `()`) into an accumulated expression, every step computes the link's span from (accumulated expression, link) and does so before the accumulator is replaced by the link - computed afterwards the span runs from the link to itself and the node does not contain its first child (round 6 seed C05-18; 12 fold steps in 2 actions, followed into functions of the package the actions call; no fixture grammar has a fold, the recorded seed is the positive example)."
	for _, id := range []string{"C05", "C10"} {
		extendProp(id, fsp, []report.Floor{{Rule: "fold-span", What: "folding-actions", Min: 2}, {Rule: "fold-span", What: "fold-steps", Min: 4}},
			func(c *Ctx) { defer c.cleanup(); c.flowRule("fold-span", flowRules["fold-span"]) })
	}
	extendProp("C04", "linear and order on both grammars: tokens appear in the tree once and in the slots whose declaration order is source order, so that walking the tree meets them in increasing offset order (round 6 seed C04-18: the loop that nests the `$` of `$$$a` flipped; the outermost node carried the last `$`).",
		[]report.Floor{{Rule: "linear", What: "productions", Min: 1000}, {Rule: "order", What: "objects", Min: 900}},
		func(c *Ctx) { defer c.cleanup(); c.flows_("linear", "order") })
	extendProp("C11", "tree-readonly on the observer packages: printing, dumping, traversing and resolving write nothing that is reachable from the tree - in particular not the bytes of the source, which every token value aliases - so a second pipeline working on the same buffer or tree reads what it would read alone (round 6 seed C11-16: the resolver built a name in a buffer seeded with the first part's Value and appended into the caller's source).",
		[]report.Floor{{Rule: "tree-readonly", What: "functions", Min: 650}},
		func(c *Ctx) {
			c.ssaRepo("tree-readonly", func(w *effects.World) *report.RuleResult {
				return effects.TreeReadonly(w, "pkg/visitor/printer", "pkg/visitor/dumper", "pkg/visitor/traverser", "pkg/visitor/nsresolver", "pkg/visitor")
			})
		})
	extendProp("C16", "nil-in-list, now also for optional tokens: a token of a nonterminal with an empty alternative (possible_comma) is appended to a token list only under a nil test of that same symbol - the dumper skips nil entries of a list, so a list with a nil in it is dumped with fewer elements than the tree has (round 6 seed C16-18: the guard tested `$5` where `$6` is appended).",
		[]report.Floor{{Rule: "nil-in-list", What: "appends", Min: 12}},
		func(c *Ctx) { defer c.cleanup(); c.flows_("nil-in-list") })
	const shl = "scanner-helpers: NewLexer keeps the caller's bytes as they are (data is the parameter, pe its length, the cursor starts at 0), so offsets recorded by the scanner are offsets into the caller's source and no leading byte is lost (round 6 seeds C02-18, C06-18: a leading UTF-8 byte order mark trimmed in NewLexer; printing loses three bytes and every error position is three bytes too small)."
	for _, id := range []string{"C02", "C06"} {
		extendProp(id, shl, []report.Floor{{Rule: "scanner-helpers", What: "facts", Min: 12}}, func(c *Ctx) { c.ssaScan("scanner-helpers") })
	}
	const nd = "nil-deref: on no path of any grammar action a field is read through a pointer that is nil on that path - a local pointer only one branch assigns, a token field no production of the symbol sets (the abstract interpreter of the actions knows which values are nil where); report-positions also requires the token or node an error takes its position from to be there (round 6 seeds C01-17: `$4.(*ast.StmtClass).ExtendsTkn.Position` on the implements carrier; C01-18: `var args *ArgumentList; if $2 != nil {…}; args.X` panics on `new class {}`)."
	for _, id := range []string{"C01", "C06", "C03"} {
		extendProp(id, nd, []report.Floor{{Rule: "nil-deref", What: "actions", Min: 1000}},
			func(c *Ctx) { defer c.cleanup(); c.flows_("nil-deref") })
	}
	const li = "list-index: wherever a grammar action (or a function of the package inlined into it) takes the first or last element of a list a right-hand-side symbol carries, or reslices it by one (`$3[len($3)-1]`, `$4[0]`, `$4[1:]`, `pairList.Items[0]`), the list is non-empty on that path: no production of the symbol yields an empty list and nil is either never yielded or tested on the path, or the list is built in the action with an element, or every production of the symbol fills the carrier's field with a non-empty list, or the path tests the length (17 sites in the PHP 5 grammar; an empty list there is an index-out-of-range panic on the input that makes it empty). Elements taken at a loop variable are not obligations of this rule."
	for _, id := range []string{"C01", "C06", "C03"} {
		extendProp(id, li, []report.Floor{{Rule: "list-index", What: "sites", Min: 10}},
			func(c *Ctx) { defer c.cleanup(); c.flows_("list-index") })
	}
	extendProp("C01", "report-positions (see C06): a panic while building an error report is a crash.",
		[]report.Floor{{Rule: "report-positions", What: "reports", Min: 4}},
		func(c *Ctx) { defer c.cleanup(); c.flowRule("report-positions", flowRules["report-positions"]) })
	const ko = "kind-oracle: per production (keyed by left-hand side and right-hand side) the set of kinds its action can return - a node kind, a right-hand-side symbol passed on, a list, nil - equals the table testdata/oracle/production_kinds.json (1014 productions of both grammars, produced from the pinned tree; kind-of-operator decides the operator productions from PHP's operator table independently). A construct that becomes another node kind is printed the same and accepted silently, but it is another program to the formatter and to every consumer (round 6 seeds C03-17 = C17-16: `foreach ($a as [$x, $y])` built an ExprArray instead of an ExprList; formatted as `array($x, $y)`, which does not parse there)."
	for _, id := range []string{"C03", "C17", "C10"} {
		extendProp(id, ko, []report.Floor{{Rule: "kind-oracle", What: "productions", Min: 1000}}, func(c *Ctx) { defer c.cleanup(); c.kindOracle() })
	}
	const us = "unget-spec: the helper that gives the end of a token back to the input (`ungetStr(s)`: the action interpreter gives it its meaning by name) is evaluated from source for every token text of up to three bytes over the bytes of s and one other byte, for every constant s the scanner passes: it gives back exactly len(s) bytes when the token ends with s and nothing otherwise (round 6 seed C03-16: `strings.TrimRight(tokenStr, s)` treats s as a set of bytes; a comment ending in `??>` lost its `?`, inline HTML ending in `<<` never ended)."
	const ns = "num-spec: every action block that can return T_LNUMBER is evaluated from source on decimal, octal, hexadecimal and binary literals around the boundaries (zero, all-zero digits, separators, the largest integer and one more); which radix reaches a block is read off the automaton, not the action; the id assigned must be T_LNUMBER exactly when the digits, in their radix, fit a signed 64-bit integer (round 6 seed C03-18: `strings.TrimLeft(text, \"0x\")` made `0x0` a float)."
	for _, id := range []string{"C03", "C02", "C01"} {
		extendProp(id, us, []report.Floor{{Rule: "unget-spec", What: "constants", Min: 2}}, func(c *Ctx) { defer c.cleanup(); c.scanRun("unget-spec") })
	}
	extendProp("C03", ns, []report.Floor{{Rule: "num-spec", What: "number-blocks", Min: 4}}, func(c *Ctx) { defer c.cleanup(); c.scanRun("num-spec") })
	extendProp("C17", "insert-spec: the helper with which the formatter puts generated statements into a statement list is evaluated from source (slices with shared backing arrays and capacities) on every list of up to four elements with up to two elements of spare capacity, every position and one or two new elements; the result must be list[:at] ++ new ++ list[at:] (round 6 seed C17-18: the two copies of the in-place branch swapped).",
		[]report.Floor{{Rule: "insert-spec", What: "helpers", Min: 1}, {Rule: "insert-spec", What: "scenarios", Min: 10}},
		func(c *Ctx) {
			if p, _, ok := c.RepoProgram(false); ok {
				c.Add(visitors.InsertSpec(p, "pkg/visitor/formatter"))
			}
		})
	extendProp("C10", "builder-ends: the twelve combinators of the position builder take start offset and line from the first boundary and end offset and line from the last (round 6 seed C10-17: NewNodeTokenPosition took EndLine from the token's StartLine; the two grammars close `const A = 1;` with different combinators, so the trees differ where `;` and a following `?>` form one multi-line token). linear now also requires a list that is taken apart by index to be placed completely ([0] with [1:], [:last] with [last]) (seed C10-16: `append($3[:len($3)-1], $4[0])` lost every dereference after a method call under PHP 5).",
		[]report.Floor{{Rule: "builder-ends", What: "combinators", Min: 12}},
		func(c *Ctx) { c.builderEnds() })
	extendProp("C14", "presence-oracle: which slots of which node kinds a silently parsed tree may leave empty equals the reviewed table - a name node's kind is told by its tokens (a NameRelative has its `namespace` keyword, a NameFullyQualified its leading separator), and the resolver chooses the rule by kind (seed C14-13: `\\Vendor\\X` in a PHP 5 constant expression built as a NameRelative without the keyword, resolved against the current namespace).",
		[]report.Floor{{Rule: "presence-oracle", What: "slots", Min: 1100}},
		func(c *Ctx) { defer c.cleanup(); c.presenceOracle() })
	extendProp("C10", "pool-typestate: positions come from a pool per parse; the two grammars request different numbers of positions for the same source, so a pool that hands one object out twice corrupts different nodes under 5.x and 7.x (seed C10-14: early return of &block[0] without advancing the offset).",
		[]report.Floor{{Rule: "pool-typestate", What: "pools", Min: 2}},
		func(c *Ctx) { c.poolRule() })
	extendProp("C15", "linear and order on both grammars: the printer emits slots in declaration order, which is source order only if every grammar action puts each right-hand-side token into the slot whose position in the declaration matches its position in the source, once, and never a package-level object (seeds C15-13: the two separators of `use \\Foo\\{…}` stored in each other's slot; C15-14: one shared ExprArrayItem for every skipped list entry).",
		[]report.Floor{{Rule: "linear", What: "productions", Min: 1000}, {Rule: "order", What: "objects", Min: 900}},
		func(c *Ctx) { defer c.cleanup(); c.flows_("linear", "order") })
	for _, id := range []string{"C03", "C04", "C08"} {
		properties[id].Technique += "; language inclusion on the product of the scanner's transition system with the automaton of PHP's lexemes per token id"
	}
}

// kindOracle: per production, the set of node kinds its action can return equals the table
// testdata/oracle/production_kinds.json (fixture: the table of the good fixture grammar for both fixture grammars).
func (c *Ctx) kindOracle() {
	type tableFile struct {
		Comment string                         `json:"comment"`
		Tables  map[string]map[string][]string `json:"tables"`
	}
	compare := func(res *report.RuleResult, dir, path string, labels [][2]string) {
		dump := os.Getenv("VERIF_DUMP_KINDS") != ""
		tf := tableFile{Tables: map[string]map[string][]string{}}
		if !dump {
			b, err := os.ReadFile(path)
			if err != nil || json.Unmarshal(b, &tf) != nil {
				res.Unknown("oracle", path, "", "undecided:anchor: the table cannot be read")
				return
			}
		}
		for _, lb := range labels {
			label, oname := lb[0], lb[1]
			f, _ := c.flow(dir, label)
			if f == nil {
				res.Unknown(label, "", "", "undecided: the grammar's actions could not be interpreted")
				continue
			}
			got := f.ProductionKinds()
			if dump {
				tf.Tables[label] = got
				continue
			}
			want := tf.Tables[oname]
			var keys []string
			seen := map[string]bool{}
			for k := range got {
				keys, seen[k] = append(keys, k), true
			}
			for k := range want {
				if !seen[k] {
					keys = append(keys, k)
				}
			}
			sort.Strings(keys)
			for _, k := range keys {
				res.Count("productions", 1)
				g, w := strings.Join(got[k], ", "), strings.Join(want[k], ", ")
				key := label + ":" + k
				switch {
				case g == w:
					res.OK(key, "", k, "builds "+g)
				case want[k] == nil:
					res.Bad(key, "", k, "a production the table does not have (builds "+g+"): the grammar accepts or structures something differently")
				case got[k] == nil:
					res.Bad(key, "", k, "the table has this production (building "+w+"), the grammar no longer does")
				default:
					res.Bad(key, "", k, "builds "+g+"; the table says "+w+": the construct becomes another node kind")
				}
			}
		}
		if dump {
			tf.Comment = "per production (left-hand side: right-hand side) the kinds its action can return: a node kind, =$i (a right-hand-side symbol passed on), list, nil"
			b, _ := json.MarshalIndent(tf, "", " ")
			os.WriteFile(path, append(b, '\n'), 0644)
		}
	}
	if !c.NoFixtures {
		dir := filepath.Join(c.Verif, "testdata", "fixture", "mini")
		fres := report.NewResult("kind-oracle")
		compare(fres, dir, filepath.Join(dir, "production_kinds.json"), [][2]string{{"yok", "yok"}, {"ybad", "yok"}})
		if os.Getenv("VERIF_DUMP_KINDS") == "" {
			c.compareFixture("mini", "kind-oracle", dir, fres)
		}
	}
	res := report.NewResult("kind-oracle")
	defer c.Add(res)
	if _, _, ok := c.RepoProgram(false); !ok {
		return
	}
	compare(res, c.Repo, filepath.Join(c.Verif, "testdata", "oracle", "production_kinds.json"), [][2]string{{"php5", "php5"}, {"php7", "php7"}})
}

func init() {
	properties["KO"] = &Property{Level: "other", Engine: "yyflow", Run: func(c *Ctx) { defer c.cleanup(); c.kindOracle() }}
}
