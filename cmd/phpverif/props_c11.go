package main

import (
	"verif/internal/effects"
	"verif/internal/kinds"
	"verif/internal/load"
	"verif/internal/report"
)

func (c *Ctx) world(p *load.Program, rule string) *effects.World {
	w, err := effects.NewWorld(p)
	if err != nil {
		c.Fail(rule, "ssa", "ssa: "+err.Error())
		return nil
	}
	return w
}

func init() {
	delete(notApplicable, "C11")
	properties["C11"] = &Property{
		Level:     "other",
		LevelText: "Effect analysis on go/ssa over every function of every library package (generated lexer and parsers included): every use of every package-level variable is classified and must be a read (or the escape of a reference whose referent type is proven never to be written outside its constructor); library code contains no goroutines, map iteration, select, clock, randomness, reflection or unsafe; in the CLI every write of a package-level variable is in main and dominates every go statement, and goroutines receive only channels. Freedom from shared mutable state implies race freedom and schedule-independence for pipelines on different inputs; determinism follows from the absence of nondeterministic constructs. Level 'other': the argument is complete for this code base under the stated assumption that callers do not share one input buffer, tree or writer between goroutines, but it is a structural argument, not an exploration of schedules.",
		LevelNote: "Trusted: go/ssa construction; the classification of uses in internal/effects/globals.go (an unknown use is a violation); sync primitives are the only shareable package-level objects. Assumes io.Writer values handed to printer/dumper are not shared by the caller.",
		Technique: "static analysis: SSA effect analysis of package-level state (who-writes / escape classification), banned-construct scan, dominance of publication over goroutine start",
		Engine:    "effects",
		Explanation: "no-global-writes: for each (function, package-level variable) pair in library packages the variable is only read; reference-typed variables may additionally escape into per-call state only if their referent type is immutable (immutable-shared: every store to a version.Version field anywhere in the module hits an object allocated in the same function). no-nondeterminism: per package the import set excludes time, math/rand, unsafe, reflect, sync, runtime, os; per function no map range, select, go, %p. cli-publish-before-go: in cmd/php-parser all stores to package-level variables are in main, on blocks dominating every go statement and not reachable from one; go targets and their callees store to none; goroutine arguments are channels; send-fresh: whatever a worker sends on a channel inside its loop is built from variables that are fresh in each iteration (no buffer shared between a message already sent and the next one).",
		Assumptions: []string{"callers do not share an input buffer, a tree or an io.Writer between concurrent pipelines", "third-party packages used by the CLI only (profile, realpath) are out of scope"},
		TrustedBase: append([]string{"go/ssa (x/tools v0.29.0)"}, baseTrusted...),
		Floors: []report.Floor{
			{Rule: "no-global-writes", What: "functions", Min: 1200},
			{Rule: "no-global-writes", What: "uses", Min: 20},
			{Rule: "immutable-shared", What: "stores", Min: 2},
			{Rule: "no-nondeterminism", What: "packages", Min: 16},
			{Rule: "cli-publish-before-go", What: "go-statements", Min: 2},
			{Rule: "cli-publish-before-go", What: "global-stores", Min: 8},
			{Rule: "send-fresh", What: "sends", Min: 2},
		},
		Run: func(c *Ctx) {
			c.Fixture("mini", "no-global-writes", true, func(p *load.Program, tb *kinds.Table) *report.RuleResult {
				w, err := effects.NewWorld(p)
				if err != nil {
					panic(err)
				}
				return effects.NoGlobalWrites(w, w.LibraryPkgs()...)
			})
			c.Fixture("mini", "immutable-shared", true, func(p *load.Program, tb *kinds.Table) *report.RuleResult {
				w, _ := effects.NewWorld(p)
				return effects.ImmutableTypes(w, "pkg/version.Version", "pkg/badversion.Version")
			})
			c.Fixture("mini", "no-nondeterminism", true, func(p *load.Program, tb *kinds.Table) *report.RuleResult {
				w, _ := effects.NewWorld(p)
				return effects.NoNondeterminism(w, w.LibraryPkgs()...)
			})
			c.Fixture("mini", "cli-publish-before-go", true, func(p *load.Program, tb *kinds.Table) *report.RuleResult {
				w, _ := effects.NewWorld(p)
				r := effects.CLIPublish(w, "cmd/goodcli")
				r.Merge(effects.CLIPublish(w, "cmd/badcli"), "bad:")
				return r
			})
			c.Fixture("mini", "send-fresh", true, func(p *load.Program, tb *kinds.Table) *report.RuleResult {
				w, _ := effects.NewWorld(p)
				r := effects.SendFresh(w, "cmd/goodcli")
				r.Merge(effects.SendFresh(w, "cmd/badcli"), "bad:")
				return r
			})
			if p, _, ok := c.RepoProgram(true); ok {
				w := c.world(p, "no-global-writes")
				if w == nil {
					return
				}
				lib := w.LibraryPkgs()
				c.Add(effects.NoGlobalWrites(w, lib...))
				c.Add(effects.ImmutableTypes(w, "pkg/version.Version"))
				c.Add(effects.NoNondeterminism(w, lib...))
				c.Add(effects.CLIPublish(w, "cmd/php-parser"))
				c.Add(effects.SendFresh(w, "cmd/php-parser"))
			}
		},
	}
}
