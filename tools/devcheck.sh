#!/bin/sh
# dev helper: run checks against a scratch worktree of /repo with a patch applied.
# usage: tools/devcheck.sh <patch.diff|-> <ID>...      (- : no patch, the clean worktree)
# The worktree /tmp/wt/dev is created on demand and left clean; remove it with
#   git -C /repo worktree remove --force /tmp/wt/dev
set -u
WT=/tmp/wt/dev; VF=/tmp/wt/vf
[ -d $WT ] || { mkdir -p /tmp/wt; git -C /repo worktree add --detach -q $WT HEAD || exit 2; }
if [ ! -d $VF ]; then mkdir -p $VF/evidence; for f in testdata known_findings.json bin MANIFEST.json properties.jsonl; do ln -s /verif/$f $VF/$f; done; fi
git -C $WT checkout -q -- . && git -C $WT clean -fdq
git -C $WT checkout -q --detach "$(git -C /repo rev-parse HEAD)"
patch=$1; shift
if [ "$patch" != "-" ]; then git -C $WT apply "$(realpath "$patch")" || exit 2; fi
for id in "$@"; do
  /verif/bin/phpverif check $id --repo $WT --verif $VF 2>&1 | grep -E "^  (violated|undecided)|^OK|^VIOLATION" | cut -c1-${COLS:-400}
done
git -C $WT checkout -q -- . && git -C $WT clean -fdq
