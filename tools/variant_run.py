#!/usr/bin/env python3
"""Run the registered checks against source variants of the repository.

usage: tools/variant_run.py --patches DIR [--wt WORKTREE] [--bin BIN] [--verif DIR]
                            [--checks C01,C02] [--only 1,2] [--jobs 6] [--out FILE]

DIR/<n>/patch.diff is applied (git apply) to WORKTREE (a scratch worktree of
/repo, never /repo itself unless asked), every check is run with
`BIN check <ID> --repo WORKTREE --verif VERIF`, and the worktree is restored.
Prints one line per variant: which checks reported a violation, and the
violated obligations. Used for two experiments:
  * behaviour-preserving refactorings: every report is a false alarm;
  * seeded defects: a silent run is a miss.
"""
import argparse, json, os, subprocess, sys
from concurrent.futures import ThreadPoolExecutor

ENV = dict(os.environ, GOFLAGS='-mod=mod', GOPROXY='off', GOSUMDB='off', GOTOOLCHAIN='local', GOWORK='off')


def sh(cmd, cwd=None, timeout=1800):
    r = subprocess.run(cmd, shell=True, cwd=cwd, env=ENV, capture_output=True, text=True, timeout=timeout)
    return r.returncode, r.stdout + r.stderr


def main():
    ap = argparse.ArgumentParser()
    ap.add_argument('--patches', required=True)
    ap.add_argument('--wt', default='/tmp/wt-dev')
    ap.add_argument('--bin', default='/verif/bin/phpverif')
    ap.add_argument('--verif', default='/verif')
    ap.add_argument('--checks')
    ap.add_argument('--only')
    ap.add_argument('--jobs', type=int, default=6)
    ap.add_argument('--out')
    a = ap.parse_args()
    man = json.load(open('/verif/MANIFEST.json'))
    checks = a.checks.split(',') if a.checks else [c['property_id'] for c in man['checks']]
    names = sorted(d for d in os.listdir(a.patches) if os.path.exists(os.path.join(a.patches, d, 'patch.diff')))
    if a.only:
        names = [n for n in names if n in a.only.split(',')]
    rc, out = sh('git status --porcelain', cwd=a.wt)
    if out.strip():
        sys.exit('worktree %s is not clean:\n%s' % (a.wt, out))
    results = {}
    for n in names:
        patch = os.path.join(a.patches, n, 'patch.diff')
        rc, out = sh('git apply %s' % patch, cwd=a.wt)
        if rc != 0:
            print('%s: patch does not apply: %s' % (n, out.strip()[:200]))
            results[n] = {'error': 'patch does not apply'}
            sh('git checkout -- . && git clean -fdq', cwd=a.wt)
            continue
        rcb, outb = sh('go build ./...', cwd=a.wt)
        if rcb != 0:
            print('%s: does not build: %s' % (n, outb.strip()[:300]))
            results[n] = {'error': 'does not build'}
            sh('git checkout -- . && git clean -fdq', cwd=a.wt)
            continue

        def one(cid):
            rc, out = sh('%s check %s --tier quick --repo %s --verif %s' % (a.bin, cid, a.wt, a.verif), cwd='/verif')
            bad = [l.strip() for l in out.splitlines() if l.strip().startswith(('violated', 'undecided'))]
            return cid, rc, bad, ('VIOLATION' in out)
        det = {}
        with ThreadPoolExecutor(a.jobs) as ex:
            for cid, rc, bad, vio in ex.map(one, checks):
                if rc != 0 or vio:
                    det[cid] = bad or ['exit %d' % rc]
        sh('git checkout -- . && git clean -fdq', cwd=a.wt)
        results[n] = {'reported_by': det}
        print('%s: %s' % (n, sorted(det) or 'silent'))
        for cid in sorted(det):
            for l in det[cid][:6]:
                print('      %s %s' % (cid, l[:260]))
        sys.stdout.flush()
    if a.out:
        json.dump(results, open(a.out, 'w'), indent=1)


if __name__ == '__main__':
    main()
