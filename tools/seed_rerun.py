#!/usr/bin/env python3
"""Re-run registered quick checks against every kept seeded mutant.

usage: tools/seed_rerun.py [--checks C01,C02] [--seeds C05-1,C05-2] [--own]
  --own : for each seed run only the check of the property it was written for
Applies seeded/<id>/patch.diff to a private scratch worktree of /repo HEAD
(removed afterwards), runs the checks on it with a snapshot of bin/phpverif and
a shadow verification directory (so neither /repo nor /verif/evidence is
touched and /verif can be edited meanwhile), updates seeded/<id>/meta.json and
writes seeded/MATRIX.md.
"""
import argparse, json, os, subprocess, sys, time

ENV = dict(os.environ, GOFLAGS='-mod=mod', GOPROXY='off', GOSUMDB='off', GOTOOLCHAIN='local', GOWORK='off')


def sh(cmd, cwd=None, timeout=1800):
    r = subprocess.run(cmd, shell=True, cwd=cwd, env=ENV, capture_output=True, text=True, timeout=timeout)
    return r.returncode, r.stdout + r.stderr


def main():
    ap = argparse.ArgumentParser()
    ap.add_argument('--checks'); ap.add_argument('--seeds'); ap.add_argument('--own', action='store_true'); ap.add_argument('--jobs', type=int, default=8)
    a = ap.parse_args()
    man = json.load(open('/verif/MANIFEST.json'))
    registered = [c['property_id'] for c in man['checks']]
    checks = a.checks.split(',') if a.checks else registered
    seeds = sorted(d for d in os.listdir('/verif/seeded') if os.path.isdir('/verif/seeded/' + d))
    if a.seeds:
        seeds = a.seeds.split(',')
    from concurrent.futures import ThreadPoolExecutor
    import shutil, tempfile
    base = tempfile.mkdtemp(prefix='seedrerun-', dir='/tmp')
    wt, vf, binp = base + '/wt', base + '/vf', base + '/phpverif'
    rc, out = sh('./check C18 quick', cwd='/verif')  # builds the analyser once
    shutil.copy('/verif/bin/phpverif', binp)
    rc, out = sh('git -C /repo worktree add --detach -q %s HEAD' % wt)
    assert rc == 0, out
    os.makedirs(vf + '/evidence')
    # a frozen copy of everything the analyser reads from the verification directory, so that
    # edits to /verif while this runs do not change verdicts half-way
    shutil.copytree('/verif/testdata', vf + '/testdata')
    shutil.copy('/verif/known_findings.json', vf + '/known_findings.json')
    os.makedirs(vf + '/bin'); shutil.copy('/verif/bin/goyacc', vf + '/bin/goyacc')
    try:
        for s in seeds:
            d = '/verif/seeded/' + s
            if not os.path.exists(d + '/meta.json'):
                continue
            meta = json.load(open(d + '/meta.json'))
            own = meta.get('property', s.split('-')[0])
            ids = [c for c in checks if (not a.own or c == own)]
            ids = [c for c in ids if c in registered]
            if not ids:
                continue
            rc, out = sh('git -C %s apply %s/patch.diff' % (wt, d))
            if rc != 0:
                print('%s: PATCH DOES NOT APPLY: %s' % (s, out.strip()[:200]))
                sh('git checkout -q -- . && git clean -fdq', cwd=wt)
                continue
            det = dict(meta.get('detected_by') or {})
            silent = set(meta.get('silent') or [])
            def one(cid):
                rc, out = sh('%s check %s --tier quick --repo %s --verif %s' % (binp, cid, wt, vf), cwd='/verif')
                lines = [l.strip()[:400] for l in out.splitlines() if l.startswith('  violated') or l.startswith('  undecided')]
                return cid, rc, lines
            try:
                with ThreadPoolExecutor(a.jobs) as ex:
                    for cid, rc, lines in ex.map(one, ids):
                        if rc != 0:
                            det[cid] = lines[:6]
                            silent.discard(cid)
                        else:
                            det.pop(cid, None)
                            silent.add(cid)
            finally:
                sh('git checkout -q -- . && git clean -fdq', cwd=wt)
            meta['detected_by'] = det
            meta['silent'] = sorted(silent)
            meta['checks_run'] = sorted(set(meta.get('checks_run') or []) | set(ids))
            json.dump(meta, open(d + '/meta.json', 'w'), indent=1)
            print('%s: detected by %s%s' % (s, sorted(det) or 'NONE', '' if own in det else ('   (own check %s: %s)' % (own, 'silent' if own in silent else 'not registered/run'))))
            sys.stdout.flush()
    finally:
        sh('git -C /repo worktree remove --force %s' % wt)
        shutil.rmtree(base, ignore_errors=True)
    # matrix
    rows = ['| seed | property | needs | detected by | first report |', '|---|---|---|---|---|']
    for s in sorted(d for d in os.listdir('/verif/seeded') if os.path.isdir('/verif/seeded/' + d)):
        m = json.load(open('/verif/seeded/%s/meta.json' % s))
        det = m.get('detected_by') or {}
        first = ''
        if det:
            k = m.get('property') if m.get('property') in det else sorted(det)[0]
            first = (det[k][0] if det[k] else '')[:160].replace('|', '/')
        rows.append('| %s | %s | %s | %s | %s |' % (s, m.get('property'), (m.get('needs_to_manifest') or '')[:110].replace('|', '/').replace('\n', ' '), ', '.join(sorted(det)) or '**none**', first))
    open('/verif/seeded/MATRIX.md', 'w').write('# Seeded changes and the checks that report them\n\n' + '\n'.join(rows) + '\n')


if __name__ == '__main__':
    sys.exit(main())
