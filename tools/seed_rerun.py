#!/usr/bin/env python3
"""Re-run registered quick checks against every kept seeded mutant.

usage: tools/seed_rerun.py [--checks C01,C02] [--seeds C05-1,C05-2] [--own]
  --own : for each seed run only the check of the property it was written for
Applies seeded/<id>/patch.diff to /repo, runs the checks, restores /repo
(git checkout), restores /verif/evidence, updates seeded/<id>/meta.json and
writes seeded/MATRIX.md.
"""
import argparse, json, os, subprocess, sys, time

ENV = dict(os.environ, GOFLAGS='-mod=mod', GOPROXY='off', GOSUMDB='off', GOTOOLCHAIN='local', GOWORK='off')


def sh(cmd, cwd=None, timeout=1800):
    r = subprocess.run(cmd, shell=True, cwd=cwd, env=ENV, capture_output=True, text=True, timeout=timeout)
    return r.returncode, r.stdout + r.stderr


def main():
    ap = argparse.ArgumentParser()
    ap.add_argument('--checks'); ap.add_argument('--seeds'); ap.add_argument('--own', action='store_true')
    a = ap.parse_args()
    man = json.load(open('/verif/MANIFEST.json'))
    registered = [c['property_id'] for c in man['checks']]
    checks = a.checks.split(',') if a.checks else registered
    seeds = sorted(d for d in os.listdir('/verif/seeded') if os.path.isdir('/verif/seeded/' + d))
    if a.seeds:
        seeds = a.seeds.split(',')
    rc, out = sh('git -C /repo status --porcelain')
    assert out.strip() == '', '/repo not clean'
    sh('./check C18 quick', cwd='/verif')  # builds the analyser once
    for s in seeds:
        d = '/verif/seeded/' + s
        meta = json.load(open(d + '/meta.json'))
        own = meta.get('property', s.split('-')[0])
        ids = [c for c in checks if (not a.own or c == own)]
        ids = [c for c in ids if c in registered]
        if not ids:
            continue
        rc, out = sh('git -C /repo apply %s/patch.diff' % d)
        if rc != 0:
            print('%s: PATCH DOES NOT APPLY: %s' % (s, out.strip()[:200]))
            continue
        det = dict(meta.get('detected_by') or {})
        silent = set(meta.get('silent') or [])
        try:
            for cid in ids:
                rc, out = sh('./bin/phpverif check %s --tier quick' % cid, cwd='/verif')
                lines = [l.strip()[:400] for l in out.splitlines() if l.startswith('  violated') or l.startswith('  undecided')]
                if rc != 0:
                    det[cid] = lines[:6]
                    silent.discard(cid)
                else:
                    det.pop(cid, None)
                    silent.add(cid)
        finally:
            sh('git -C /repo checkout -- . && git -C /repo clean -fdq')
        meta['detected_by'] = det
        meta['silent'] = sorted(silent)
        meta['checks_run'] = sorted(set(meta.get('checks_run') or []) | set(ids))
        json.dump(meta, open(d + '/meta.json', 'w'), indent=1)
        print('%s: detected by %s%s' % (s, sorted(det) or 'NONE', '' if own in det else ('   (own check %s: %s)' % (own, 'silent' if own in silent else 'not registered/run'))))
    sh('git -C /verif checkout -- evidence')
    # matrix
    rows = ['| seed | property | needs | detected by | first report |', '|---|---|---|---|---|']
    for s in sorted(d for d in os.listdir('/verif/seeded') if os.path.isdir('/verif/seeded/' + d)):
        m = json.load(open('/verif/seeded/%s/meta.json' % s))
        det = m.get('detected_by') or {}
        first = ''
        if det:
            k = m.get('property') if m.get('property') in det else sorted(det)[0]
            first = (det[k][0] if det[k] else '')[:160].replace('|', '/')
        rows.append('| %s | %s | %s | %s | %s |' % (s, m.get('property'), (m.get('needs_to_manifest') or '')[:110].replace('|', '/').replace('\n', ' '), ', '.join(sorted(det)) or '**none**', first))
    open('/verif/seeded/MATRIX.md', 'w').write('# Seeded changes and the checks that report them\n\n' + '\n'.join(rows) + '\n')


if __name__ == '__main__':
    sys.exit(main())
