#!/usr/bin/env python3
"""Process the output of one seeding agent: for each mutant directory <src>/<ID>/out/<n>
work out where its demonstration belongs and call seed_verify.py.

usage: tools/seed_round.py <ID> [--src /tmp/seedwork2] [--offset 3] [--only 1,2]
"""
import argparse, json, os, re, subprocess, sys

ap = argparse.ArgumentParser()
ap.add_argument('id'); ap.add_argument('--src', default='/tmp/seedwork2'); ap.add_argument('--offset', type=int, default=3)
ap.add_argument('--only'); ap.add_argument('--checks'); ap.add_argument('--demo-timeout', default='180')
a = ap.parse_args()
root = os.path.join(a.src, a.id, 'out')
for n in sorted(os.listdir(root)):
    d = os.path.join(root, n)
    if not os.path.exists(os.path.join(d, 'patch.diff')) or (a.only and n not in a.only.split(',')):
        continue
    meta = json.load(open(os.path.join(d, 'meta.json')))
    cmd = ['python3', '/verif/tools/seed_verify.py', a.id, n, '--src', a.src, '--dst-n', str(int(n) + a.offset), '--demo-timeout', a.demo_timeout]
    if a.checks:
        cmd += ['--checks', a.checks]
    demo = os.path.join(d, 'demo_test.go')
    if os.path.exists(demo):
        pk = re.search(r'^package\s+(\w+)', open(demo).read(), re.M).group(1)
        base = pk[:-5] if pk.endswith('_test') else pk
        cands = []
        for m in re.finditer(r'((?:pkg|internal|cmd)/[\w/.-]+)', json.dumps(meta)):
            p = m.group(1).rstrip('/.')
            while p and not os.path.isdir(os.path.join('/repo', p)):
                p = os.path.dirname(p)
            if p and p not in cands:
                cands.append(p)
        def pkgname(p):
            for f in sorted(os.listdir(os.path.join('/repo', p))):
                if f.endswith('.go') and not f.endswith('_test.go'):
                    m = re.search(r'^package\s+(\w+)', open(os.path.join('/repo', p, f)).read(), re.M)
                    if m:
                        return m.group(1)
            return None
        good = [p for p in cands if pkgname(p) == base]
        if not good:
            print('%s-%s: cannot place demo_test.go (package %s); candidates %s' % (a.id, n, pk, cands)); continue
        cmd += ['--pkg', good[0]]
    else:
        print('%s-%s: no demo_test.go: files %s — handle by hand with --demo-cmd; meta demo: %s' % (a.id, n, os.listdir(d), meta.get('demo')))
        continue
    print('=== %s-%s -> %s-%d  (%s)' % (a.id, n, a.id, int(n) + a.offset, ' '.join(cmd[3:])))
    sys.stdout.flush()
    r = subprocess.run(cmd, capture_output=True, text=True)
    out = r.stdout + r.stderr
    keep = [l for l in out.splitlines() if 'exit 1' in l or 'CONFIRMED' in l or 'kept in' in l or 'cannot' in l or 'Error' in l or 'assert' in l.lower()]
    print('\n'.join(keep))
    if 'NOT CONFIRMED' in out:
        print(out[-3000:])
