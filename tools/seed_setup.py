#!/usr/bin/env python3
"""Prepare scratch directories for a round of independent bug-seeding agents.

usage: tools/seed_setup.py <root> [ID ...]
For each property creates <root>/<ID>/PROPERTY.md (the text of the property and
nothing else), <root>/<ID>/wt (a detached git worktree of /repo HEAD) and
<root>/<ID>/out, and prints the prompt file to hand to the agent.
"""
import json, os, subprocess, sys
root = sys.argv[1]
want = set(sys.argv[2:])
tmpl = open(os.environ.get('SEED_TMPL','/verif/seeded/PROMPT.tmpl')).read()
for l in open('/verif/properties.jsonl'):
    p = json.loads(l)
    if want and p['id'] not in want:
        continue
    d = os.path.join(root, p['id'])
    os.makedirs(os.path.join(d, 'out'), exist_ok=True)
    with open(os.path.join(d, 'PROPERTY.md'), 'w') as f:
        f.write('# %s — %s\n\n' % (p['id'], p['title']))
        for k, v in p.items():
            if k in ('id', 'title'):
                continue
            f.write('## %s\n\n' % k)
            f.write((v if isinstance(v, str) else json.dumps(v, indent=1)) + '\n\n')
    wt = os.path.join(d, 'wt')
    if not os.path.isdir(wt):
        subprocess.check_call(['git', '-C', '/repo', 'worktree', 'add', '--detach', '-q', wt, 'HEAD'])
    open(os.path.join(d, 'PROMPT.txt'), 'w').write(tmpl.replace('/tmp/seedwork/', root.rstrip('/') + '/').replace('@ID@', p['id']))
    print(d)
