#!/usr/bin/env python3
"""Run every registered check against behaviour-preserving refactorings.
Every report is a false alarm.

usage: tools/benign_run.py [--root /verif/benign] [--ids C01,C02] [--jobs 8] [--checks C01,...] [--keep DIR]
<root>/<ID>/out/<n>/patch.diff is applied to a private scratch worktree of /repo HEAD (removed afterwards), the
suite is NOT re-run (the authors did), every check runs with a snapshot of bin/phpverif and a shadow verification
directory. With --keep, patches that raise an alarm are copied to DIR/<ID>-<n>/ with the report.
"""
import argparse, json, os, shutil, subprocess, sys, tempfile
from concurrent.futures import ThreadPoolExecutor
ENV = dict(os.environ, GOFLAGS='-mod=mod', GOPROXY='off', GOSUMDB='off', GOTOOLCHAIN='local', GOWORK='off')

def sh(cmd, cwd=None, timeout=1800):
    r = subprocess.run(cmd, shell=True, cwd=cwd, env=ENV, capture_output=True, text=True, timeout=timeout)
    return r.returncode, r.stdout + r.stderr

ap = argparse.ArgumentParser()
ap.add_argument("--root", default="/verif/benign"); ap.add_argument('--ids'); ap.add_argument('--jobs', type=int, default=8)
ap.add_argument('--checks'); ap.add_argument('--keep'); ap.add_argument('--only'); ap.add_argument('--own', action='store_true'); ap.add_argument('--skip')
a = ap.parse_args()
man = json.load(open('/verif/MANIFEST.json'))
checks = a.checks.split(',') if a.checks else [c['property_id'] for c in man['checks']]
base = tempfile.mkdtemp(prefix='benignrun-', dir='/tmp')
wt, vf, binp = base + '/wt', base + '/vf', base + '/phpverif'
shutil.copy('/verif/bin/phpverif', binp)
rc, out = sh('git -C /repo worktree add --detach -q %s HEAD' % wt); assert rc == 0, out
os.makedirs(vf + '/evidence')
shutil.copytree('/verif/testdata', vf + '/testdata')
shutil.copy('/verif/known_findings.json', vf + '/known_findings.json')
os.makedirs(vf + '/bin'); shutil.copy('/verif/bin/goyacc', vf + '/bin/goyacc')
total = alarms = 0
try:
    entries = []
    for name in sorted(os.listdir(a.root)):
        if os.path.exists(os.path.join(a.root, name, 'patch.diff')) and '-' in name:   # flat: <ID>-<n>/
            entries.append((name.split('-')[0], name.split('-')[1], a.root, name))
        elif os.path.isdir(os.path.join(a.root, name, 'out')):                          # agent layout: <ID>/out/<n>/
            for n in sorted(os.listdir(os.path.join(a.root, name, 'out'))):
                entries.append((name, n, os.path.join(a.root, name, 'out'), n))
    for pid, n, od, sub in entries:
        if a.ids and pid not in a.ids.split(','):
            continue
        if True:
            patch = os.path.join(od, sub, 'patch.diff')
            if not os.path.exists(patch) or not os.path.exists(os.path.join(od, sub, 'meta.json')) or (a.only and '%s-%s' % (pid, n) not in a.only.split(',')) or (a.skip and '%s-%s' % (pid, n) in a.skip.split(',')):
                continue
            rc, out = sh('git apply %s' % patch, cwd=wt)
            if rc != 0:
                print('%s-%s: patch does not apply: %s' % (pid, n, out.strip()[:200])); sh('git checkout -q -- . && git clean -fdq', cwd=wt); continue
            rcb, outb = sh('go build ./...', cwd=wt)
            if rcb != 0:
                print('%s-%s: does not build: %s' % (pid, n, outb.strip()[:300])); sh('git checkout -q -- . && git clean -fdq', cwd=wt); continue
            def one(cid):
                rc, out = sh('%s check %s --tier quick --repo %s --verif %s' % (binp, cid, wt, vf), cwd='/verif')
                bad = [l.strip() for l in out.splitlines() if l.strip().startswith(('violated', 'undecided'))]
                return cid, rc, bad
            det = {}
            with ThreadPoolExecutor(a.jobs) as ex:
                for cid, rc, bad in ex.map(one, ([pid] if a.own else checks)):
                    if rc != 0:
                        det[cid] = bad or ['exit %d' % rc]
            sh('git checkout -q -- . && git clean -fdq', cwd=wt)
            total += 1
            mech = ''
            try:
                mech = json.load(open(os.path.join(od, sub, 'meta.json'))).get('mechanism', '')
            except Exception:
                pass
            if det:
                alarms += 1
                print('%s-%s [%s]: FALSE ALARM in %s' % (pid, n, mech, sorted(det)))
                seen = set()
                for cid in sorted(det):
                    for l in det[cid][:8]:
                        k = l[:120]
                        if k in seen:
                            continue
                        seen.add(k)
                        print('      %s %s' % (cid, l[:300]))
                if a.keep:
                    d = os.path.join(a.keep, '%s-%s' % (pid, n)); os.makedirs(d, exist_ok=True)
                    shutil.copy(patch, d); shutil.copy(os.path.join(od, sub, 'meta.json'), d)
                    json.dump(det, open(os.path.join(d, 'alarms.json'), 'w'), indent=1)
            else:
                print('%s-%s [%s]: silent' % (pid, n, mech))
            sys.stdout.flush()
finally:
    sh('git -C /repo worktree remove --force %s' % wt)
    shutil.rmtree(base, ignore_errors=True)
print('variants: %d, with a false alarm: %d' % (total, alarms))
