#!/usr/bin/env python3
"""Confirm a seeded mutant independently and run the registered checks on it.

usage: tools/seed_verify.py <ID> <n> [--pkg <dir for demo_test.go>] [--run <test regexp>] [--src /tmp/seedwork]
                                      [--demo-cmd '<shell command run inside the checkout>'] [--checks C01,C02]

1. scratch worktree of /repo HEAD under /tmp/seedverify (removed afterwards)
2. demonstration WITHOUT the patch must pass
3. with the patch: the unedited suite must pass, the demonstration must fail
4. apply the patch to /repo, run every registered quick check (or --checks), undo it
5. on success copy patch.diff, the demonstration and an extended meta.json to /verif/seeded/<ID>-<n>/
"""
import argparse, json, os, shutil, subprocess, sys, time

ENV = dict(os.environ, GOFLAGS='-mod=mod', GOPROXY='off', GOSUMDB='off', GOTOOLCHAIN='local', GOWORK='off')


def sh(cmd, cwd=None, timeout=600):
    try:
        r = subprocess.run(cmd, shell=True, cwd=cwd, env=ENV, capture_output=True, text=True, timeout=timeout)
        return r.returncode, (r.stdout + r.stderr)
    except subprocess.TimeoutExpired as e:
        return 124, 'TIMEOUT after %ss\n%s' % (timeout, (e.stdout or b'').decode(errors='replace') if isinstance(e.stdout, bytes) else (e.stdout or ''))


def main():
    ap = argparse.ArgumentParser()
    ap.add_argument('id'); ap.add_argument('n')
    ap.add_argument('--pkg'); ap.add_argument('--run', default='.')
    ap.add_argument('--src', default='/tmp/seedwork')
    ap.add_argument('--demo-cmd')
    ap.add_argument('--checks')
    ap.add_argument('--demo-timeout', type=int, default=120)
    ap.add_argument('--keep-anyway', action='store_true')
    ap.add_argument('--dst-n', help='number under /verif/seeded/<ID>-<dst-n> (default: n)')
    ap.add_argument('--jobs', type=int, default=6)
    a = ap.parse_args()
    src = os.path.join(a.src, a.id, 'out', a.n)
    patch = os.path.join(src, 'patch.diff')
    meta = json.load(open(os.path.join(src, 'meta.json')))
    wt = '/tmp/seedverify/%s-%s' % (a.id, a.n)
    os.makedirs('/tmp/seedverify', exist_ok=True)
    sh('git -C /repo worktree remove --force %s' % wt)
    rc, out = sh('git -C /repo worktree add --detach %s HEAD' % wt)
    assert rc == 0, out
    log = {}
    try:
        def demo():
            if a.demo_cmd:
                return sh(a.demo_cmd.replace('{src}', src), cwd=wt, timeout=a.demo_timeout)
            dst = os.path.join(wt, a.pkg, 'zz_seed_demo_test.go')
            shutil.copy(os.path.join(src, 'demo_test.go'), dst)
            r = sh("go test -vet=off -count=1 -timeout %ds -run '%s' ./%s/" % (a.demo_timeout, a.run, a.pkg), cwd=wt, timeout=a.demo_timeout + 60)
            os.remove(dst)
            return r
        rc0, out0 = demo()
        log['demo_without_patch'] = {'exit': rc0, 'tail': out0[-1500:]}
        rc, out = sh('git apply %s' % patch, cwd=wt)
        assert rc == 0, 'patch does not apply: ' + out
        rcb, outb = sh('go build ./... && go vet ./... >/dev/null 2>&1; go build ./...', cwd=wt)
        rct, outt = sh('go test -vet=off -count=1 ./...', cwd=wt, timeout=900)
        log['suite_with_patch'] = {'exit': rct, 'tail': outt[-1200:]}
        rc1, out1 = demo()
        log['demo_with_patch'] = {'exit': rc1, 'tail': out1[-2500:]}
        # run the checks on the scratch worktree (patch applied) with a shadow verification directory,
        # so that neither /repo nor /verif/evidence is touched and several seeds can be processed at once
        ok = rc0 == 0 and rct == 0 and rc1 != 0
        print('demo without patch: exit %d | suite with patch: exit %d | demo with patch: exit %d  => %s' % (rc0, rct, rc1, 'CONFIRMED' if ok else 'NOT CONFIRMED'))
        if not ok:
            print(json.dumps(log, indent=1)[:6000])
            if not a.keep_anyway:
                return 1
        man = json.load(open('/verif/MANIFEST.json'))
        ids = ([] if a.checks == 'none' else a.checks.split(',')) if a.checks else [c['property_id'] for c in man['checks']]
        shadow = wt + '.vf'
        shutil.rmtree(shadow, ignore_errors=True)
        os.makedirs(os.path.join(shadow, 'evidence'))
        shutil.copytree('/verif/testdata', shadow + '/testdata')
        shutil.copy('/verif/known_findings.json', shadow + '/known_findings.json')
        os.makedirs(shadow + '/bin'); shutil.copy('/verif/bin/goyacc', shadow + '/bin/goyacc')
        sh('git status --porcelain', cwd=wt)
        detected, silent = {}, []
        from concurrent.futures import ThreadPoolExecutor
        def one(cid):
            t = time.time()
            rc, out = sh('/verif/bin/phpverif check %s --tier quick --repo %s --verif %s' % (cid, wt, shadow), cwd='/verif', timeout=1200)
            lines = [l for l in out.splitlines() if l.startswith('  violated') or l.startswith('  undecided')]
            return cid, rc, lines, time.time() - t
        with ThreadPoolExecutor(a.jobs) as ex:
            for cid, rc, lines, dt in ex.map(one, ids):
                if rc != 0:
                    detected[cid] = [l.strip()[:400] for l in lines[:6]]
                else:
                    silent.append(cid)
                print('  check %s: exit %d (%.1fs) %s' % (cid, rc, dt, (lines[0].strip()[:200] if lines else '')))
        shutil.rmtree(shadow, ignore_errors=True)
    finally:
        sh('git -C /repo worktree remove --force %s' % wt)
    dst = '/verif/seeded/%s-%s' % (a.id, a.dst_n or a.n)
    os.makedirs(dst, exist_ok=True)
    shutil.copy(patch, dst)
    for f in os.listdir(src):
        if f.startswith('demo') and not f.endswith('.txt'):
            p = os.path.join(src, f)
            if os.path.isdir(p):
                shutil.copytree(p, os.path.join(dst, f), dirs_exist_ok=True)
            else:
                # keep the demo from being compiled as part of /verif's module
                shutil.copy(p, os.path.join(dst, f + '.txt' if f.endswith('.go') else f))
    meta['confirmed'] = ok
    meta['confirmation'] = {'how': 'tools/seed_verify.py in a scratch worktree of /repo HEAD (removed afterwards): demonstration without the patch, unedited suite with the patch, demonstration with the patch; the registered checks were then run on that patched worktree (phpverif check <ID> --repo <worktree>)',
                            'demo_location': a.pkg, 'demo_run': a.run, 'demo_cmd': a.demo_cmd, 'results': log}
    meta['checks_run'] = ids
    meta['detected_by'] = detected
    meta['silent'] = silent
    json.dump(meta, open(os.path.join(dst, 'meta.json'), 'w'), indent=1)
    print('kept in', dst, '| detected by:', sorted(detected) or 'NONE')
    return 0


if __name__ == '__main__':
    sys.exit(main())
