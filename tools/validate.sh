#!/bin/sh
# dev helper: validate MANIFEST.json and all evidence files against the schemas
cd /verif && python3-vt - <<'PY'
import json,jsonschema,glob
jsonschema.validate(json.load(open('MANIFEST.json')),json.load(open('/root/.vp/MANIFEST.schema.json')))
m=json.load(open('MANIFEST.json'))
for c in m['checks']:
    jsonschema.validate(json.load(open(c['evidence_file'])),json.load(open('/root/.vp/EVIDENCE.schema.json')))
ids={c['property_id'] for c in m['checks']}|{c['property_id'] for c in m.get('not_applicable',[])}
assert len(ids)==18, ids
print('valid:',sorted(c['property_id'] for c in m['checks']))
PY
