#!/usr/bin/env python3
"""dev helper: after REVIEWING the keys a fixture run reports as unexpected,
add them to the fixture's expect.json.  usage: tools/fx_accept.py C16"""
import json, re, subprocess, sys
out = subprocess.run(['./bin/phpverif', 'check', sys.argv[1]], capture_output=True, text=True, cwd='/verif').stdout
for m in re.finditer(r'undecided fixtures/(\w+):([\w-]+): good construct reported: (.*?) at ', out):
    fx, rule, keys = m.groups()
    f = '/verif/testdata/fixture/%s/expect.json' % fx
    e = json.load(open(f))
    e.setdefault(rule, [])
    for k in keys.split(', '):
        if k not in e[rule]:
            e[rule].append(k)
    e[rule].sort()
    json.dump(e, open(f, 'w'), indent=1)
    print('accepted', fx, rule, keys)
